"""C12 - cleanup removes exactly what it was asked to: mtime filter of the directory walk, strategy dispatch arguments."""
from pyvc.api import contract, cls, ghost, lemma
from pyvc import tracelib as T
from . import c11_seed, c13_expiry  # noqa  (TileWalker._walk and TileManager.is_stale carry C12 obligations too)


def _file_decision(ex, st, k):
    """one file of the walk: removed iff remove_all or its OWN modification time (lstat: links are not followed) is
    strictly before the given time; the path handed to the handler is the walked path"""
    import z3
    from pyvc.values import eq
    n0 = getattr(st, 'iter_start_trace', 0)
    evs_ = st.trace[n0:]
    lst = [e for e in evs_ if e.name == 'lstat']
    # (os.stat / os.path.getmtime / getctime follow links: the age they report is the link target's, not the tile's own)
    stt = [e for e in evs_ if e.name in ('stat', 'getmtime', 'getctime', 'getatime')]
    joins = [e for e in evs_ if e.name == 'join']
    handler = [e for e in evs_ if e.name in ('file_handler', 'remove')]
    ra = ex.truth(st, st.env['remove_all'])
    before = st.env['before_timestamp']
    goal = z3.BoolVal(not stt and len(lst) <= 1 and len(handler) <= 1)
    fname = st.env['filename']
    # the path examined is os.path.join(<directory being walked>, <name listed in it>), in that order
    sp = st.fork()
    sp.spec = True
    sp.env = {'d': st.env['dirpath'], 'n': st.env['filenames'].elem(k)}
    goal = z3.And(goal, eq(fname, ex.ev1(sp, ex.reg.parse_spec('pjoin(d, n)'))))
    if lst and not lst[0].raised:
        mt = ex.opaque_field_at(st, handler[0] if handler else lst[0], lst[0].result, 'st_mtime').t
        old = mt < before.t
        goal = z3.And(goal, eq(lst[0].args[0], fname))
        if handler:
            goal = z3.And(goal, z3.Or(ra, old), eq(handler[0].args[0], fname))
        else:
            goal = z3.And(goal, z3.Not(z3.Or(ra, old)))
    elif not lst:
        # no stat at all: only the remove_all short cut may decide without looking at the file
        goal = z3.And(goal, ra, z3.BoolVal(len(handler) == 1))
        if handler:
            goal = z3.And(goal, eq(handler[0].args[0], fname))
    yield ('file_removed_iff_selected', goal,
           'a file is handed to the remove handler iff remove_all or lstat(path).st_mtime < before_timestamp (strict, own mtime)')


def _cleanup_dir_protocol(ex, st, post, result):
    """the whole-directory short cuts: rmtree only for remove_all without a handler; otherwise the directory itself is walked"""
    import z3
    from pyvc.values import eq
    d = post.env['directory']
    ra = ex.truth(st, post.env['remove_all'])
    fh = post.env['file_handler']
    no_handler = fh.isnone if hasattr(fh, 'isnone') else z3.BoolVal(False)
    ex_ = [e for i, e in T.evs(st, 'exists')]
    rt = [e for i, e in T.evs(st, 'rmtree')]
    wk = [e for i, e in T.evs(st, 'walk')]
    rde = [e for i, e in T.evs(st, 'remove_dir_if_empty')]
    goal = z3.BoolVal(len(ex_) == 1 and len(rt) <= 1 and len(wk) <= 1)
    if ex_:
        goal = z3.And(goal, eq(ex_[0].args[0], d))
    for e in rt:
        goal = z3.And(goal, ra, no_handler, eq(e.args[0], d), z3.BoolVal(not wk))
    for e in wk:
        goal = z3.And(goal, eq(e.args[0], d), z3.BoolVal(bool(ex_)), ex.truth(st, ex_[0].result) if ex_ else z3.BoolVal(False))
    if not wk and not rt:
        # nothing removed file-wise: the directory does not exist, or it was empty and has just been removed
        gone = z3.Not(ex.truth(st, ex_[0].result)) if ex_ else z3.BoolVal(False)
        emptied = z3.Or([z3.And(ex.truth(st, e.result), eq(e.args[0], d)) for e in rde]) if rde else z3.BoolVal(False)
        goal = z3.And(goal, z3.Or(gone, z3.And(emptied, no_handler, ex.truth(st, post.env['remove_empty_dirs']))))
    yield ('whole_directory_shortcuts', goal,
           'shutil.rmtree(directory) only for remove_all without a file handler; the files are left unvisited only if the '
           'directory does not exist or was empty; otherwise os.walk(directory) visits it')


contract('mapproxy.util.fs:cleanup_directory', props=['C12'],
         types=dict(directory='str', before_timestamp='real', remove_all='bool', remove_empty_dirs='bool',
                    file_handler='opt[opaque]'),
         returns='none', default_callee='opaque',
         opaque_fields={'st_mtime': 'real'}, stable_fields=['st_mtime'],
         opaque_spec={'walk': {'returns': 'list[tuple[str,opaque,list[str]]]', 'pure': True},
                      'exists': {'returns': 'bool', 'pure': True}, 'listdir': {'returns': 'list[str]', 'pure': True},
                      'lstat': {'raises': ['OSError'], 'pure': True}, 'stat': {'raises': ['OSError'], 'pure': True},
                      'getmtime': {'returns': 'real', 'raises': ['OSError'], 'pure': True},
                      'getctime': {'returns': 'real', 'raises': ['OSError'], 'pure': True},
                      'getatime': {'returns': 'real', 'raises': ['OSError'], 'pure': True},
                      'remove': {'raises': ['OSError']}, 'file_handler': {'raises': ['OSError']},
                      'remove_dir_if_empty': {'returns': 'bool'}, 'rmdir': {}, 'rmtree': {}},
         opaque=['join'],
         raises={'OSError': True},
         loops={0: dict(inv=[], types={'filename': 'str'}),
                1: dict(inv=[], types={'filename': 'str'}, body_trace=[_file_decision])},
         trace=[_cleanup_dir_protocol])


# ---- strategy dispatch: every level gets exactly the task's timestamp / remove_all ------------------------------------------
def _simple_level(ex, st, k):
    import z3
    from pyvc.values import eq
    n0 = getattr(st, 'iter_start_trace', 0)
    evs_ = st.trace[n0:]
    loc = [e for e in evs_ if e.name == 'level_location']
    cd = [e for e in evs_ if e.name == 'cleanup_directory']
    task = st.env['task']
    goal = z3.BoolVal(len(loc) == 1 and len(cd) <= 1)
    if loc:
        goal = z3.And(goal, eq(loc[0].args[0], st.env['level']))
    if not cd:
        # a selected level is left alone only when the saved progress says it was already cleaned in an interrupted run
        ap = [e for e in evs_ if e.name == 'already_processed']
        goal = z3.And(goal, ex.truth(st, ap[0].result) if ap else z3.BoolVal(False))
    # in a dry run files are only listed: a handler that does not remove is installed
    dry = ex.truth(st, st.env['dry_run'])
    for c in cd:
        fh = c.kwargs.get('file_handler')
        is_none = fh.isnone if hasattr(fh, 'isnone') else z3.BoolVal(fh is None or type(fh).__name__ == 'VNone')
        goal = z3.And(goal, dry == z3.Not(is_none))
    for c in cd:
        goal = z3.And(goal, z3.BoolVal(c.args[0] is loc[0].result),
                      eq(c.args[1], ex.opaque_field_at(st, c, task, 'remove_timestamp')),
                      eq(c.args[2], ex.opaque_field_at(st, c, task, 'remove_all')))
    yield ('level_directory_and_threshold', goal,
           "each selected level: cleanup_directory(cache.level_location(level), task.remove_timestamp, task.remove_all)")


contract('mapproxy.seed.cleanup:simple_cleanup', props=['C12'],
         types=dict(task='opaque', dry_run='bool', progress_logger='opt[opaque]', cleanup_progress='opt[opaque]'),
         returns='none', default_callee='opaque',
         opaque_fields={'levels': 'list[int]', 'remove_timestamp': 'opt[real]', 'remove_all': 'bool'},
         stable_fields=['levels', 'remove_timestamp', 'remove_all'],
         opaque_spec={'level_location': {'returns': 'str', 'pure': True}, 'already_processed': {'returns': 'bool', 'pure': True},
                      'cleanup_directory': {}, 'normpath': {'pure': True}},
         # cleanup() creates cleanup_progress whenever a progress store exists; None with a store is a caller error
         raises={'AttributeError': True, 'OSError': True},
         loops={0: dict(inv=[], types={'file_handler': 'opt[opaque]'}, body_trace=[_simple_level])})


def _cache_level(ex, st, k):
    import z3
    from pyvc.values import eq
    n0 = getattr(st, 'iter_start_trace', 0)
    evs_ = st.trace[n0:]
    rm = [e for e in evs_ if e.name == 'remove_level_tiles_before']
    task = st.env['task']
    dry = ex.truth(st, st.env['dry_run'])
    goal = z3.Implies(z3.Not(dry), z3.BoolVal(len(rm) == 1))
    for c in rm:
        goal = z3.And(goal, z3.Not(dry), eq(c.args[0], st.env['level']),
                      eq(c.args[1], ex.opaque_field_at(st, c, task, 'remove_timestamp')),
                      eq(c.args[2], ex.opaque_field_at(st, c, task, 'remove_all')))
    yield ('level_and_threshold', goal, 'each selected level: cache.remove_level_tiles_before(level, task.remove_timestamp, task.remove_all); nothing in dry-run')


contract('mapproxy.seed.cleanup:cache_cleanup', props=['C12'],
         types=dict(task='opaque', dry_run='bool', progress_logger='opt[opaque]'), returns='none', default_callee='opaque',
         opaque_fields={'levels': 'list[int]', 'remove_timestamp': 'opt[real]', 'remove_all': 'bool'},
         stable_fields=['levels', 'remove_timestamp', 'remove_all'],
         opaque_spec={'remove_level_tiles_before': {}},
         loops={0: dict(inv=[], body_trace=[_cache_level])})


# ---- cleanup(): the strategies that ignore the coverage are used only for tasks that cover the complete extent ------------------
def _strategy_choice(ex, st, k):
    import z3
    evs_ = st.trace[getattr(st, 'iter_start_trace', 0):]
    task = st.env['task']
    whole = [e for e in evs_ if e.name in ('simple_cleanup', 'cache_cleanup')]
    walk = [e for e in evs_ if e.name == 'tilewalker_cleanup']
    complete = ex.truth(st, ex.opaque_field(st, task, 'complete_extent'))
    cov = ex.opaque_field(st, task, 'coverage')
    goal = z3.BoolVal(len(whole) + len(walk) <= 1)
    for e in whole + walk:
        goal = z3.And(goal, z3.BoolVal(e.args[0] is task))
    if not whole and not walk:
        # a task is skipped only when its coverage is literally False (an empty coverage: nothing to clean)
        from pyvc.values import ObjSort, opaque_is_true
        goal = z3.And(goal, z3.Not(opaque_is_true(cov.t)), z3.Function('opaque_is_false', ObjSort, z3.BoolSort())(cov.t))
    else:
        tm = [e for e in evs_ if e.name == 'cleanup']
        goal = z3.And(goal, z3.BoolVal(len(tm) == 1))      # and the tile manager is cleaned up afterwards
    if whole:
        # level-wise strategies remove by level directory / SQL per level: they do not look at the coverage
        goal = z3.And(goal, complete)
    # ... and each is used only with a cache that offers the operation it relies on (directory per level / per-level delete)
    from pyvc.values import ObjSort as _OS
    _callable = z3.Function('opaque_callable', _OS, z3.BoolSort())
    cache = ex.opaque_field(st, ex.opaque_field(st, task, 'tile_manager'), 'cache')
    has_dirs = _callable(ex.opaque_field(st, cache, 'level_location').t)
    has_del = _callable(ex.opaque_field(st, cache, 'remove_level_tiles_before').t)
    for e in whole:
        goal = z3.And(goal, has_dirs if e.name == 'simple_cleanup' else z3.And(z3.Not(has_dirs), has_del))
    if walk:
        goal = z3.And(goal, z3.Or(z3.Not(complete), z3.And(z3.Not(has_dirs), z3.Not(has_del))))
    yield ('coverage_blind_strategies_only_for_complete_extent', goal,
           'simple_cleanup / cache_cleanup (which remove whole levels without consulting the task coverage) run only when '
           'task.complete_extent is true; every other task goes through the coverage-aware tile walker; one strategy per task')


contract('mapproxy.seed.cleanup:cleanup', props=['C12'],
         types=dict(tasks='list[opaque]', concurrency='opaque', dry_run='bool', skip_geoms_for_last_levels='opaque', verbose='opaque',
                    progress_logger='opt[opaque]'), returns='none', default_callee='opaque',
         opaque_fields={'complete_extent': 'opaque', 'coverage': 'opaque', 'tile_manager': 'opaque', 'cache': 'opaque',
                        'level_location': 'opaque', 'remove_level_tiles_before': 'opaque'},
         stable_fields=['complete_extent', 'coverage', 'tile_manager', 'cache', 'level_location', 'remove_level_tiles_before'],
         opaque_spec={'format_cleanup_task': {'pure': True}, 'get': {'pure': True}, 'SeedProgress': {'pure': True},
                      'DirectoryCleanupProgress': {'pure': True}, 'callable': {'returns': 'bool', 'pure': True},
                      'getattr': {'pure': True}, 'simple_cleanup': {}, 'cache_cleanup': {}, 'tilewalker_cleanup': {}, 'cleanup': {}},
         opaque=['simple_cleanup', 'cache_cleanup', 'tilewalker_cleanup'],
         loops={0: dict(inv=[], types={}, body_trace=[_strategy_choice])})


# ---- resumed directory clean-up: which level directories may be skipped (BOUNDED: split/zip_longest/string order) ----------------------
_SKIP_CASES = {}


def _gen_can_skip(gen, rng):
    """old_dir / current_dir as simple_cleanup produces them: the level directories (level_location of the real layouts) of two
    levels of one cache; cache directories with numeric components and dimension sub-directories included"""
    from mapproxy.cache.path import location_funcs
    layout = rng.choice(['tc', 'mp', 'tms', 'arcgis'])
    level_location = location_funcs(layout)[1]
    cache_dir = rng.choice(['/var/cache/osm_EPSG3857', '/data/2/cache', '/srv/10/9/c', 'cache_data/l', '/c', '/tmp/x-1/EPSG4326'])
    dims = rng.choice([None, None, {'time': '2020-01-01'}, {'elevation': '10', 'time': '9'}])
    a, b = rng.randint(0, 24), rng.randint(0, 24)
    old, cur = level_location(a, cache_dir, dims), level_location(b, cache_dir, dims)
    _SKIP_CASES[(old, cur)] = (a, b)
    return {'old_dir': old, 'current_dir': cur}


def _skips_exactly_earlier_levels(args, result):
    """a level directory is skipped on resume exactly if its level is below the level the interrupted run had reached
    (levels are cleaned in ascending order): never a level that was not cleaned yet - e.g. '10' after an interruption in '2'"""
    a, b = _SKIP_CASES[(args['old_dir'], args['current_dir'])]
    return result == (b < a)


contract('mapproxy.seed.cleanup:DirectoryCleanupProgress.can_skip', props=['C12'], verify=False,
         types=dict(old_dir='str', current_dir='str'), returns='bool',
         ensures=[_skips_exactly_earlier_levels], fuzz_gen=_gen_can_skip, bounded=dict(n=6000, seconds=8))
