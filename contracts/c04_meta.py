"""C04 - a tile is the same image however produced: MetaGrid geometry, crop pattern, split bookkeeping."""
from pyvc.api import contract, loop, ghost, lemma, cls
from . import shared_grid, c03_grid  # noqa
G = 'mapproxy.grid:'

cls(G + 'MetaTile', fields=dict(bbox='tuple[real,real,real,real]', size='tuple[int,int]',
                                tile_patterns='list[tuple[opt[tuple[int,int,int]],tuple[int,int]]]',
                                grid_size='tuple[int,int]'))

ghost('meta_wf', ['m'], """grid_wf(m.grid) and m.meta_size[0] >= 1 and m.meta_size[1] >= 1 and m.meta_buffer >= 0""")
ghost('msize', ['m', 'z', 'a'], "min(m.meta_size[a], m.grid.grid_sizes[z][a])")

contract(G + 'MetaGrid._meta_size', props=['C04', 'C08'],
         types=dict(level='int'), returns='tuple[int,int]',
         requires=['meta_wf(self)', 'valid_level(self.grid, level)'],
         ensures=['result[0] == msize(self, level, 0) and result[1] == msize(self, level, 1)',
                  # never larger than the level's grid, never empty
                  '1 <= result[0] <= self.grid.grid_sizes[level][0] and 1 <= result[1] <= self.grid.grid_sizes[level][1]'],
         must_fail='result[0] == self.meta_size[0]')

contract(G + 'MetaGrid.main_tile', props=['C04', 'C08'],
         types=dict(tile_coord='tuple[int,int,int]'), returns='tuple[int,int,int]',
         requires=['meta_wf(self)', 'valid_level(self.grid, tile_coord[2])'],
         ensures=['result[2] == tile_coord[2]',
                  'result[0] % msize(self, tile_coord[2], 0) == 0 and result[1] % msize(self, tile_coord[2], 1) == 0',
                  'result[0] <= tile_coord[0] < result[0] + msize(self, tile_coord[2], 0)',
                  'result[1] <= tile_coord[1] < result[1] + msize(self, tile_coord[2], 1)',
                  'result[0] == tile_coord[0] // msize(self, tile_coord[2], 0) * msize(self, tile_coord[2], 0)',
                  'result[1] == tile_coord[1] // msize(self, tile_coord[2], 1) * msize(self, tile_coord[2], 1)'],
         must_fail='result[0] == tile_coord[0]')

lemma('main_tile_idempotent', ['C04', 'C08'],
      doc='x0 = x // m * m  =>  x0 // m * m == x0, and every x1 in [x0, x0+m) has the same main tile (m >= 1)',
      fn=lambda z3: (lambda x, m, q, x1, q1: (
          [m >= 1, x == q * m + (x - q * m), 0 <= x - q * m, x - q * m < m,          # q = x // m
           q * m <= x1, x1 < q * m + m, x1 == q1 * m + (x1 - q1 * m), 0 <= x1 - q1 * m, x1 - q1 * m < m],
          q1 == q))(z3.Int('x'), z3.Int('m'), z3.Int('q'), z3.Int('x1'), z3.Int('q1')))

# element m of a meta tile's tile list: column m % w, row m // w from the top, None outside the grid
ghost('mt_elem', ['mg', 'x0', 'y0', 'w', 'h', 'z', 'm'], """
    None if (x0 + m % w < 0 or mt_y(mg, y0, h, m // w) < 0 or x0 + m % w >= mg.grid.grid_sizes[z][0]
             or mt_y(mg, y0, h, m // w) >= mg.grid.grid_sizes[z][1])
    else (x0 + m % w, mt_y(mg, y0, h, m // w), z)""")
ghost('mt_y', ['mg', 'y0', 'h', 'r'], "(y0 + r) if mg.grid.flipped_y_axis else (y0 + h - 1 - r)")

contract(G + 'MetaGrid._meta_tile_list', props=['C04', 'C08', 'C16'],
         types=dict(main_tile='tuple[int,int,int]', tile_grid='tuple[int,int]'),
         returns='list[opt[tuple[int,int,int]]]',
         requires=['meta_wf(self)', 'valid_level(self.grid, main_tile[2])', 'tile_grid[0] >= 1 and tile_grid[1] >= 1'],
         ensures=[
             'len(result) == tile_grid[0] * tile_grid[1]',
             """forall(lambda m: implies(0 <= m < len(result), result[m] == mt_elem(self,
                    main_tile[0] // msize(self, main_tile[2], 0) * msize(self, main_tile[2], 0),
                    main_tile[1] // msize(self, main_tile[2], 1) * msize(self, main_tile[2], 1),
                    tile_grid[0], tile_grid[1], main_tile[2], m)))""",
             # never an address outside the grid
             """forall(lambda m: implies(0 <= m < len(result) and result[m] is not None,
                    0 <= result[m][0] < self.grid.grid_sizes[main_tile[2]][0]
                    and 0 <= result[m][1] < self.grid.grid_sizes[main_tile[2]][1] and result[m][2] == main_tile[2]))"""],
         must_fail='len(result) == 1')

contract(G + 'MetaGrid.tile_list', props=['C04', 'C08'],
         types=dict(main_tile='tuple[int,int,int]'), returns='list[opt[tuple[int,int,int]]]',
         requires=['meta_wf(self)', 'valid_level(self.grid, main_tile[2])'],
         ensures=[
             'len(result) == msize(self, main_tile[2], 0) * msize(self, main_tile[2], 1)',
             """forall(lambda m: implies(0 <= m < len(result), result[m] == mt_elem(self,
                    main_tile[0] // msize(self, main_tile[2], 0) * msize(self, main_tile[2], 0),
                    main_tile[1] // msize(self, main_tile[2], 1) * msize(self, main_tile[2], 1),
                    msize(self, main_tile[2], 0), msize(self, main_tile[2], 1), main_tile[2], m)))"""],
         must_fail='len(result) == 1')

# ---- crop pattern -------------------------------------------------------------------------------------------
ghost('main_x', ['mg', 't'], "t[0] // msize(mg, t[2], 0) * msize(mg, t[2], 0)")
ghost('main_y', ['mg', 't'], "t[1] // msize(mg, t[2], 1) * msize(mg, t[2], 1)")

contract(G + 'MetaGrid._tiles_pattern', props=['C04'],
         types=dict(grid_size='tuple[int,int]', buffers='tuple[int,int,int,int]', tile='opt[tuple[int,int,int]]',
                    tiles='opt[list[opt[tuple[int,int,int]]]]'),
         returns='list[tuple[opt[tuple[int,int,int]],tuple[int,int]]]',
         requires=['meta_wf(self)', 'grid_size[0] >= 1 and grid_size[1] >= 1',
                   'implies(tile is not None, valid_level(self.grid, tile[2]))',
                   'implies(tile is None, tiles is not None and len(tiles) == grid_size[0] * grid_size[1])'],
         ensures=[
             'len(result) == grid_size[0] * grid_size[1]',
             # pixel offset of entry m inside the meta image: column * tile width + left buffer, row * tile HEIGHT + top buffer
             """forall(lambda m: implies(0 <= m < len(result),
                    result[m][1][0] == (m % grid_size[0]) * self.grid.tile_size[0] + buffers[0]
                    and result[m][1][1] == (m // grid_size[0]) * self.grid.tile_size[1] + buffers[3]))""",
             """implies(tile is not None, forall(lambda m: implies(0 <= m < len(result), result[m][0] ==
                    mt_elem(self, main_x(self, tile), main_y(self, tile), grid_size[0], grid_size[1], tile[2], m))))""",
             'implies(tile is None, forall(lambda m: implies(0 <= m < len(result), result[m][0] == tiles[m])))',
         ],
         loops={
             0: dict(yield_type='tuple[opt[tuple[int,int,int]],tuple[int,int]]', inv=[
                 'len(yielded) == _k * grid_size[0]',
                 'len(tiles) == grid_size[0] * grid_size[1]',
                 """forall(lambda m: implies(0 <= m < len(yielded), yielded[m][0] == tiles[m]
                        and yielded[m][1][0] == (m % grid_size[0]) * self.grid.tile_size[0] + buffers[0]
                        and yielded[m][1][1] == (m // grid_size[0]) * self.grid.tile_size[1] + buffers[3]))"""]),
             1: dict(yield_type='tuple[opt[tuple[int,int,int]],tuple[int,int]]', inv=[
                 'len(yielded) == _k0 * grid_size[0] + _k',
                 'len(tiles) == grid_size[0] * grid_size[1]',
                 'implies(_k < grid_size[0], (_k0 * grid_size[0] + _k) % grid_size[0] == _k and (_k0 * grid_size[0] + _k) // grid_size[0] == _k0)',
                 """forall(lambda m: implies(0 <= m < len(yielded), yielded[m][0] == tiles[m]
                        and yielded[m][1][0] == (m % grid_size[0]) * self.grid.tile_size[0] + buffers[0]
                        and yielded[m][1][1] == (m // grid_size[0]) * self.grid.tile_size[1] + buffers[3]))"""]),
         },
         must_fail='len(result) == 1')
