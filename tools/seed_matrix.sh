#!/bin/sh
# run every kept seeded change against the check of the property it breaks (scratch copies only); writes seeded/RESULTS.md
cd ${VERIF_ROOT:-/verif} || exit 1
OUT=seeded/RESULTS.md
echo "| seed | property | detected | first violated obligation | replayed input |" > $OUT.tmp
echo "|---|---|---|---|---|" >> $OUT.tmp
for d in seeded/C*/; do
  id=$(basename $d); prop=$(python3 -c "import json;print(json.load(open('$d/meta.json'))['property'])")
  log=/tmp/seedrun_$id.log
  TRY_TIMEOUT=1500 tools/try_patch.sh $(pwd)/$d/patch.diff $prop > $log 2>&1; rc=$?
  v=$(grep -m1 '^VIOLATION' $log | sed 's/.*obligation=\([^ ]*\).*/\1/')
  nv=$(grep -c '^VIOLATION' $log)
  rep=$(grep '^VIOLATION' $log | grep -vc 'no-failing-input-found')
  if [ $rc = 1 ]; then det="yes ($nv)"; elif [ $rc = 2 ]; then det="undecided"; else det="NO (exit $rc)"; fi
  echo "| $id | $prop | $det | $v | $rep of $nv |" >> $OUT.tmp
  echo "$id $prop rc=$rc $v"
done
mv $OUT.tmp $OUT
