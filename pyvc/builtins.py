"""Models of Python operators, built-in functions and trusted stubs (each stub use is recorded in
Executor.used_stubs and ends up in the evidence's trusted_base)."""
import ast
import z3

from .values import (Value, VInt, VReal, VBool, VStr, VNone, NONE, VOpt, VSeq, VObj, VOpaque, VBlob, VFunc,
                     VDict, Unsupported, Raised, uid, ite, eq, is_num, to_real, to_int, parse_type, Ty,
                     ObjSort, BlobSort)

blob_len = z3.Function('blob_len', BlobSort, z3.IntSort())
opaque_truthy = z3.Function('opaque_truthy', ObjSort, z3.BoolSort())

STUB_TYPES = {}
BUILTINS = {}
EXTERNS = {}
METHODS = {}      # (shape, name) -> handler(ex, st, selfv, args, kwargs, node)
STUB_CLASSES = {}  # '$name' -> dict(method -> handler, '__getitem__'..., )


def opaque_truth(v):
    return opaque_truthy(v.t)


def builtin(name):
    def deco(f):
        BUILTINS[name] = f
        return f
    return deco


def extern(name):
    def deco(f):
        EXTERNS[name] = f
        return f
    return deco


def method(shape, name):
    def deco(f):
        METHODS[(shape, name)] = f
        return f
    return deco


# ---------------------------------------------------------------------------------------------------------
# arithmetic
def floor_real(t):
    return z3.ToInt(t)


def trunc_real(t):
    return z3.If(t >= 0, z3.ToInt(t), -z3.ToInt(-t))


def ceil_real(t):
    return -z3.ToInt(-t)


fdiv = z3.Function('fdiv', z3.IntSort(), z3.IntSort(), z3.IntSort())     # Python a // b
fmod = z3.Function('fmod', z3.IntSort(), z3.IntSort(), z3.IntSort())     # Python a % b


def fdiv_facts(a, b):
    q, r = fdiv(a, b), fmod(a, b)
    return z3.And(a == q * b + r, z3.Implies(b > 0, z3.And(0 <= r, r < b)), z3.Implies(b < 0, z3.And(b < r, r <= 0)))


def global_axioms(text):
    """axioms added to a VC when the named symbols occur in it"""
    out = []
    if 'fdiv' in text or 'fmod' in text:
        a, b = z3.Ints('ax_a ax_b')
        out.append(z3.ForAll([a, b], z3.Implies(b != 0, fdiv_facts(a, b)), patterns=[fdiv(a, b), fmod(a, b)]))
    return out


def int_floordiv(ex, st, a, b):
    """Python a // b on ints; b != 0 must be established by the caller.  Constant positive divisors use z3's
    native div (= floor there); symbolic divisors use the shared uninterpreted fdiv/fmod pair, whose defining
    facts are added per occurrence (and as a global axiom for occurrences under quantifiers)."""
    if z3.is_int_value(b) and b.as_long() > 0:
        return a / b
    if not st.spec:
        st.assume(fdiv_facts(a, b))
    return fdiv(a, b)


def int_mod(ex, st, a, b):
    if z3.is_int_value(b) and b.as_long() > 0:
        return a % b
    if not st.spec:
        st.assume(fdiv_facts(a, b))
    return fmod(a, b)


def pow2(n):
    return 1 << n


def binop(ex, st, op, a, b, node=None):
    """-> [(state, Value|Raised)]"""
    if isinstance(a, VOpt) or isinstance(b, VOpt):
        res = []
        for s2, av in ex.force(st, a):
            for s3, bv in ex.force(s2, b):
                res.extend(binop(ex, s3, op, av, bv, node))
        return res
    if isinstance(a, VOpaque) or isinstance(b, VOpaque):
        # arithmetic / concatenation with an unknown value: an unknown value (a possible TypeError is not modelled)
        ex.used_stubs.add('operators applied to opaque values yield opaque values (no TypeError modelled)')
        # unknown, but a FUNCTION of operator and operands where those are terms (string constant/opaque, opaque/opaque):
        # 'image/' + fmt computed twice is the same value, and differs in name from 'image/' - fmt
        def _term(v):
            if isinstance(v, VOpaque):
                return v.t
            if isinstance(v, VStr):
                return z3.Function('opaque_of_str', z3.StringSort(), ObjSort)(v.t)
            if isinstance(v, VInt):
                return z3.Function('opaque_of_int', z3.IntSort(), ObjSort)(v.t)
            return None
        ta, tb = _term(a), _term(b)
        if ta is not None and tb is not None:
            f = z3.Function('opaque_binop_' + type(op).__name__, ObjSort, ObjSort, ObjSort)
            return [(st, VOpaque(f(ta, tb)))]
        return [(st, VOpaque(name='binop'))]
    if getattr(a, 'shape', None) == 'packed' and isinstance(op, ast.Add):
        from . import filemodel
        return filemodel.packed_add(ex, st, a, b)
    if isinstance(a, VNone) or isinstance(b, VNone):
        if st.spec:
            raise Unsupported('arithmetic on None in spec')
        return [(st, Raised('TypeError', note='%s on None (line %s)' % (type(op).__name__, getattr(node, 'lineno', '?'))))]
    # ---- numbers
    if is_num(a) and is_num(b):
        both_int = isinstance(a, (VInt, VBool)) and isinstance(b, (VInt, VBool))
        if isinstance(op, (ast.Add, ast.Sub, ast.Mult)):
            if both_int:
                x, y = to_int(a), to_int(b)
                r = x + y if isinstance(op, ast.Add) else (x - y if isinstance(op, ast.Sub) else x * y)
                return [(st, VInt(z3.simplify(r) if z3.is_int_value(x) and z3.is_int_value(y) else r))]
            x, y = to_real(a), to_real(b)
            r = x + y if isinstance(op, ast.Add) else (x - y if isinstance(op, ast.Sub) else x * y)
            return [(st, VReal(r))]
        if isinstance(op, (ast.Div, ast.FloorDiv, ast.Mod)):
            zero = (to_int(b) == 0) if isinstance(b, (VInt, VBool)) else (to_real(b) == 0)
            outs = []
            if st.spec:
                branches = [(st, False)]
            else:
                branches = ex.branch(st, zero)
            for s2, is_zero in branches:
                if is_zero:
                    outs.append((s2, Raised('ZeroDivisionError', note='line %s' % getattr(node, 'lineno', '?'))))
                    continue
                if isinstance(op, ast.Div):
                    q = VReal(to_real(a) / to_real(b))
                    if both_int:
                        q.intdiv = (to_int(a), to_int(b))       # int(a / b) on ints: exact truncated quotient
                    outs.append((s2, q))
                elif isinstance(op, ast.FloorDiv):
                    if both_int:
                        outs.append((s2, VInt(int_floordiv(ex, s2, to_int(a), to_int(b)))))
                    else:
                        outs.append((s2, VReal(z3.ToReal(floor_real(to_real(a) / to_real(b))))))
                else:
                    if both_int:
                        outs.append((s2, VInt(int_mod(ex, s2, to_int(a), to_int(b)))))
                    else:
                        x, y = to_real(a), to_real(b)
                        outs.append((s2, VReal(x - y * z3.ToReal(floor_real(x / y)))))
            return outs
        if isinstance(op, ast.Pow):
            if both_int and z3.is_int_value(to_int(a)) and z3.is_int_value(to_int(b)) and to_int(b).as_long() >= 0:
                return [(st, VInt(to_int(a).as_long() ** to_int(b).as_long()))]
            if z3.is_int_value(to_int(b)) if isinstance(b, VInt) else False:
                n = to_int(b).as_long()
                if 0 <= n <= 4:
                    x = to_int(a) if both_int else to_real(a)
                    r = z3.IntVal(1) if both_int else z3.RealVal(1)
                    for _ in range(n):
                        r = r * x
                    return [(st, VInt(r) if both_int else VReal(r))]
            if both_int and z3.is_int_value(to_int(a)) and to_int(a).as_long() == 2:
                return [(st, VInt(pow2_fn(to_int(b))))]
            raise Unsupported('general power')
        if isinstance(op, (ast.LShift, ast.RShift)) and both_int:
            x, y = to_int(a), to_int(b)
            if z3.is_int_value(y):
                n = y.as_long()
                if isinstance(op, ast.LShift):
                    return [(st, VInt(x * (1 << n)))]
                return [(st, VInt(x / (1 << n)))]
            p = pow2_fn(y)
            st.assume(p >= 1)
            if isinstance(op, ast.LShift):
                return [(st, VInt(x * p))]
            return [(st, VInt(int_floordiv(ex, st, x, p)))]
        if isinstance(op, ast.BitAnd) and both_int:
            x, y = to_int(a), to_int(b)
            for u, v in ((x, y), (y, x)):
                if z3.is_int_value(v):
                    m = v.as_long()
                    if m >= 0 and (m & (m + 1)) == 0:       # mask 2^k - 1
                        return [(st, VInt(u % (m + 1)))]
            raise Unsupported('general bit-and')
        if isinstance(op, ast.BitOr) and both_int:
            x, y = to_int(a), to_int(b)
            if z3.is_int_value(x) and z3.is_int_value(y):
                return [(st, VInt(x.as_long() | y.as_long()))]
            raise Unsupported('general bit-or')
    # ---- sequences
    if isinstance(a, VSeq) and isinstance(b, VSeq) and isinstance(op, ast.Add):
        return [(st, seq_concat(a, b))]
    if isinstance(a, VSeq) and isinstance(b, (VInt,)) and isinstance(op, ast.Mult):
        n = b.conc()
        if n is not None and a.concrete:
            return [(st, VSeq(a.items * n, kind=a.kind))]
        if a.concrete and len(a.items) == 1 and isinstance(b, VInt):
            # [item] * n: n copies of the item (none for n <= 0)
            item = a.items[0]
            r = VSeq(length=z3.If(b.t > 0, b.t, z3.IntVal(0)), elem=lambda i, _it=item: _it, kind=a.kind)
            r.rep_of = (item, b.t)
            return [(st, r)]
        if not st.spec:
            ex.used_stubs.add('list * unknown count: an unknown list (used for SQL placeholder lists only)')
            return [(st, VOpaque(name='repeated'))]
        raise Unsupported('sequence repetition with symbolic operands')
    # ---- strings
    if isinstance(a, VStr) and isinstance(b, VStr) and isinstance(op, ast.Add):
        return [(st, VStr(z3.Concat(a.t, b.t), isbytes=a.isbytes))]
    if isinstance(a, VStr) and isinstance(op, ast.Mod):
        from . import strings
        return strings.percent_format(ex, st, a, b, node)
    if isinstance(a, VStr) and isinstance(b, VInt) and isinstance(op, ast.Mult):
        if st.spec:
            raise Unsupported('str * int in spec')
        # Python: str * int repeats the string.  Needed only to expose such uses; modelled for constants.
        n, s_ = b.conc(), a.conc()
        if n is not None and s_ is not None:
            return [(st, VStr(s_ * n, isbytes=a.isbytes))]
        if n is not None and 0 <= n <= 4:
            r = z3.StringVal('')
            for _ in range(n):
                r = z3.Concat(r, a.t)
            return [(st, VStr(z3.simplify(r) if n == 0 else r))]
        raise Unsupported('str * symbolic int')
    if isinstance(a, VBlob) and isinstance(b, VBlob) and isinstance(op, ast.Add):
        from . import filemodel
        return [(st, filemodel.blob_concat(a, b))]
    if isinstance(op, (ast.Add, ast.Sub, ast.Mult, ast.Div, ast.FloorDiv, ast.Mod)) and \
            (isinstance(a, (VStr, VSeq)) or isinstance(b, (VStr, VSeq))) and not st.spec:
        if is_num(a) or is_num(b):
            return [(st, Raised('TypeError', note='%s between %s and %s' % (type(op).__name__, a.shape, b.shape)))]
    raise Unsupported('binop %s on %r, %r (line %s)' % (type(op).__name__, a, b, getattr(node, 'lineno', '?')))


_pow2 = z3.Function('pow2', z3.IntSort(), z3.IntSort())


def pow2_fn(n):
    if z3.is_int_value(n):
        return z3.IntVal(1 << n.as_long())
    return _pow2(n)


def order(ex, st, op, a, b):
    if is_num(a) and is_num(b):
        if isinstance(a, (VInt, VBool)) and isinstance(b, (VInt, VBool)):
            x, y = to_int(a), to_int(b)
        else:
            x, y = to_real(a), to_real(b)
        if isinstance(op, ast.Lt):
            return x < y
        if isinstance(op, ast.LtE):
            return x <= y
        if isinstance(op, ast.Gt):
            return x > y
        if isinstance(op, ast.GtE):
            return x >= y
    if isinstance(a, VSeq) and isinstance(b, VSeq) and a.concrete and b.concrete and len(a.items) == len(b.items):
        # lexicographic
        strict = isinstance(op, (ast.Lt, ast.Gt))
        lt = isinstance(op, (ast.Lt, ast.LtE))
        res = z3.BoolVal(not strict)
        for x, y in reversed(list(zip(a.items, b.items))):
            o1 = order(ex, st, ast.Lt() if lt else ast.Gt(), x, y)
            res = z3.Or(o1, z3.And(eq(x, y), res))
        return res
    if isinstance(a, VStr) and isinstance(b, VStr):
        if isinstance(op, ast.Lt):
            return a.t < b.t
        if isinstance(op, ast.LtE):
            return a.t <= b.t
        if isinstance(op, ast.Gt):
            return b.t < a.t
        if isinstance(op, ast.GtE):
            return b.t <= a.t
    if st.spec:
        raise Unsupported('ordering %r vs %r in spec' % (a, b))
    if (is_num(a) and isinstance(b, (VStr, VSeq))) or (is_num(b) and isinstance(a, (VStr, VSeq))):
        return lambda s: [(s, Raised('TypeError', note='ordering %s vs %s' % (a.shape, b.shape)))]
    raise Unsupported('ordering %r vs %r' % (a, b))


def _lower_eq(a, b):
    """lower(x) == 'const'  <=>  x is one of the ASCII case variants of const (exact for ASCII letters)"""
    from . import strings
    for u, v in ((a, b), (b, a)):
        if isinstance(u, VStr) and isinstance(v, VStr) and z3.is_app(u.t) and u.t.num_args() == 1 and \
                u.t.decl().name() in ('str_lower', 'str_upper') and v.conc() is not None and len(v.conc()) <= 4:
            c = v.conc()
            lower = u.t.decl().name() == 'str_lower'
            if (c.lower() if lower else c.upper()) != c:
                return z3.BoolVal(False)
            variants = ['']
            for ch in c:
                alts = {ch.lower(), ch.upper()} if ch.isascii() and ch.isalpha() else {ch}
                variants = [p + x for p in variants for x in sorted(alts)]
            return z3.Or([u.t.arg(0) == z3.StringVal(x) for x in variants])
    return None


def py_eq(ex, st, a, b):
    le = _lower_eq(a, b)
    if le is not None:
        ex.used_stubs.add("str.lower() == 'c' iff the string is an ASCII case variant of c")
        return le
    if isinstance(a, VObj) and a.cls.startswith('$') or isinstance(b, VObj) and b.cls.startswith('$'):
        return stub_eq(ex, st, a, b)
    if isinstance(a, VObj) and isinstance(b, VObj) and a.ref != b.ref:
        ci = ex.class_info(a.cls)
        if ci is not None and ex.db.find_method(ci, '__eq__'):
            raise Unsupported('__eq__ on %s' % a.cls)
    return eq(a, b)


def identical(ex, st, a, b):
    if isinstance(b, VNone) or isinstance(a, VNone):
        o = a if isinstance(b, VNone) else b
        if isinstance(o, VNone):
            return z3.BoolVal(True)
        if isinstance(o, VOpt):
            return o.isnone
        if isinstance(o, VOpaque):
            from .values import opaque_is_none
            return opaque_is_none(o.t)       # an opaque value may be None: unknown, but functional
        return z3.BoolVal(False)
    if isinstance(a, VOpaque) and isinstance(b, VBool) or isinstance(b, VOpaque) and isinstance(a, VBool):
        from .values import opaque_is_true
        o, x = (a, b) if isinstance(a, VOpaque) else (b, a)
        # `o is False`: unknown, but a function of the value (and exclusive with `o is True`)
        return z3.If(x.t, opaque_is_true(o.t),
                     z3.And(z3.Not(opaque_is_true(o.t)), z3.Function('opaque_is_false', ObjSort, z3.BoolSort())(o.t)))
    if isinstance(a, VBool) and isinstance(b, VBool):
        return a.t == b.t
    if isinstance(a, VObj) and isinstance(b, VObj):
        return z3.BoolVal(a.ref == b.ref)
    if isinstance(a, VOpaque) and isinstance(b, VOpaque):
        return a.t == b.t
    if isinstance(a, VOpt) or isinstance(b, VOpt):
        return eq(a, b)
    if isinstance(a, VBool) or isinstance(b, VBool):
        return z3.BoolVal(False)
    from .values import VFunc as _VFunc
    if isinstance(a, _VFunc) and isinstance(b, _VFunc):
        return z3.BoolVal(a.kind == b.kind and repr(a) == repr(b))
    if (isinstance(a, VOpaque) and isinstance(b, _VFunc)) or (isinstance(b, VOpaque) and isinstance(a, _VFunc)):
        # an unknown value compared with a known class / function object (marker classes such as PERMIT_ALL_LAYERS):
        # unknown, but a function of the value
        o, fn_ = (a, b) if isinstance(a, VOpaque) else (b, a)
        import re as _re
        nm = _re.sub(r'[^A-Za-z0-9_]', '_', repr(fn_))
        return z3.Function('opaque_is_' + nm, o.t.sort(), z3.BoolSort())(o.t)
    if st.spec:
        return eq(a, b)
    raise Unsupported('`is` on %r, %r' % (a, b))


def concrete_key(v):
    if isinstance(v, VStr):
        c = v.conc()
        return None if c is None else ('s', c)
    if isinstance(v, VInt):
        c = v.conc()
        return None if c is None else ('i', c)
    if isinstance(v, VBool):
        c = v.conc()
        return None if c is None else ('i', int(c))
    if isinstance(v, VNone):
        return ('n',)
    if isinstance(v, VSeq) and v.concrete:
        ks = [concrete_key(x) for x in v.items]
        if any(k is None for k in ks):
            return None
        return ('t',) + tuple(ks)
    return None


def key_value(k):
    if k[0] == 's':
        return VStr(k[1])
    if k[0] == 'i':
        return VInt(k[1])
    if k[0] == 'n':
        return NONE
    return VSeq([key_value(x) for x in k[1:]], kind='tuple')


# ---------------------------------------------------------------------------------------------------------
# sequences
def seq_concat(a, b):
    if a.concrete and b.concrete:
        return VSeq(a.items + b.items, kind=a.kind)
    la = a.length()
    return VSeq(length=la + b.length(), elem=lambda i: ite(i < la, a.elem(i), b.elem(i - la)), kind=a.kind)


def seq_append(ex, st, sq, v):
    if sq.concrete:
        return VSeq(sq.items + [v], kind=sq.kind)
    n = sq.length()
    return VSeq(length=n + 1, elem=lambda i: ite(i == n, v, sq.elem(i)), kind=sq.kind)


def range_seq(start, stop, step):
    """VSeq for range(start, stop, step) with z3 Int terms; step is a nonzero z3 Int"""
    if all(z3.is_int_value(x) for x in (start, stop, step)):
        r = range(start.as_long(), stop.as_long(), step.as_long())
        if len(r) <= 64:
            return VSeq([VInt(i) for i in r], kind='list')
    if z3.is_int_value(step) and step.as_long() == 1:
        n = z3.If(stop > start, stop - start, 0)
    elif z3.is_int_value(step) and step.as_long() == -1:
        n = z3.If(start > stop, start - stop, 0)
    else:
        # ceil((stop-start)/step) for step>0 ; ceil((start-stop)/(-step)) for step<0
        n = z3.If(step > 0,
                  z3.If(stop > start, (stop - start + step - 1) / step, 0),
                  z3.If(start > stop, (start - stop - step - 1) / (-step), 0))
    return VSeq(length=n, elem=lambda i: VInt(start + i * step), kind='list')


def as_seq(ex, st, v, for_iter=False, allow_filtered=False):
    """-> [(state, VSeq | Raised)]: iterate/unpack view of a value"""
    if isinstance(v, VSeq):
        if getattr(v, 'keep', None) is not None and not allow_filtered:
            raise Unsupported('iteration/indexing of a filtered comprehension over a symbolic sequence')
        return [(st, v)]
    if isinstance(v, VOpt):
        res = []
        for s2, fv in ex.force(st, v):
            if isinstance(fv, VNone):
                res.append((s2, Raised('TypeError', note='None is not iterable')))
            else:
                res.extend(as_seq(ex, s2, fv, for_iter))
        return res
    if isinstance(v, VNone):
        return [(st, Raised('TypeError', note='None is not iterable'))]
    if isinstance(v, VDict):
        if v.items is not None:
            return [(st, VSeq([key_value(k) for k in v.items], kind='list'))]
        # a symbolic set/dict (e.g. a module-level registry that other code may have filled): unknown elements
        return [(st, ex.fresh(st, 'list[opaque]', 'iter'))]
    if isinstance(v, VObj) and v.cls.startswith('$'):
        h = STUB_CLASSES[v.cls].get('__iter__')
        if h is None:
            raise Unsupported('iteration over %s' % v.cls)
        return h(ex, st, v)
    if isinstance(v, VStr):
        c = v.conc()
        if c is not None:
            return [(st, VSeq([VStr(ch) for ch in c], kind='list'))]
    if isinstance(v, VOpaque):
        # iterating an unknown iterable: an unknown number of unknown elements
        return [(st, ex.fresh(st, 'list[opaque]', 'iter'))]
    if isinstance(v, VObj) and not v.cls.startswith('$'):
        ci = ex.class_info(v.cls)
        fi = ex.db.find_method(ci, '__iter__') if ci else None
        if fi is not None:
            res = []
            for s2, it in ex.call_function(st, fi, [v], {}, None, force_inline=True):
                if isinstance(it, Raised):
                    res.append((s2, it))
                else:
                    res.extend(as_seq(ex, s2, it, for_iter))
            return res
    raise Unsupported('iteration over %r' % (v,))


def norm_index(st, sq, i):
    """python index normalisation: (z3 index, in-range condition)"""
    n = sq.length()
    if z3.is_int_value(i):
        iv = i.as_long()
        if iv < 0:
            return n + iv, n + iv >= 0
        return i, i < n
    idx = z3.If(i < 0, i + n, i)
    return idx, z3.And(idx >= 0, idx < n)


def getitem(ex, st, base, idx, node=None):
    if isinstance(base, VOpt):
        res = []
        for s2, fv in ex.force(st, base):
            if isinstance(fv, VNone):
                res.append((s2, Raised('TypeError', note='None is not subscriptable (line %s)' % getattr(node, 'lineno', '?'))))
            else:
                res.extend(getitem(ex, s2, fv, idx, node))
        return res
    if isinstance(base, VNone):
        if st.spec:
            raise Unsupported('subscript of None in spec')
        return [(st, Raised('TypeError', note='None is not subscriptable'))]
    if isinstance(base, VSeq):
        if isinstance(idx, VOpt):
            idx = idx.val if st.spec else idx
        if not isinstance(idx, (VInt, VBool)):
            if isinstance(idx, VStr) and not st.spec:
                return [(st, Raised('TypeError', note='sequence index is a str'))]
            raise Unsupported('sequence index %r' % (idx,))
        i, ok = norm_index(st, base, to_int(idx))
        if st.spec:
            return [(st, base.elem(z3.simplify(i)))]
        res = []
        for s2, b in ex.branch(st, ok):
            if b:
                res.append((s2, base.elem(z3.simplify(i))))
            else:
                res.append((s2, Raised('IndexError', note='line %s' % getattr(node, 'lineno', '?'))))
        return res
    if isinstance(base, VDict):
        return dict_get(ex, st, base, idx, node)
    if isinstance(base, VObj) and base.cls.startswith('$'):
        h = STUB_CLASSES[base.cls].get('__getitem__')
        if h is None:
            raise Unsupported('subscript of %s' % base.cls)
        return h(ex, st, base, idx, node)
    if isinstance(base, VObj):
        ci = ex.class_info(base.cls)
        fi = ex.db.find_method(ci, '__getitem__') if ci else None
        if fi is not None:
            return ex.call_function(st, fi, [base, idx], {}, node)
    if isinstance(base, VStr):
        from . import strings
        return strings.str_getitem(ex, st, base, idx, node)
    if isinstance(base, VBlob):
        raise Unsupported('indexing a blob')
    if isinstance(base, VOpaque):
        ck = concrete_key(idx)
        if ck is not None:
            f = z3.Function('opaque_item_%s_%d' % (abs(hash(ck)), st.epoch), ObjSort, ObjSort)
            return [(st, VOpaque(f(base.t)))]
        if isinstance(idx, VOpaque):
            # unknown container, unknown key: unknown, but the same item for the same key while nothing was mutated
            f = z3.Function('opaque_item2_%d' % st.epoch, ObjSort, ObjSort, ObjSort)
            return [(st, VOpaque(f(base.t, idx.t)))]
        res_ = VOpaque(name='item')
        if isinstance(idx, VSeq) and not st.spec:
            # lookup with a composite key: recorded (pure event) so that trace clauses can inspect the key
            from .engine import Event
            ev_ = Event('getitem', [base, idx], {}, res_, dict(st.ghost), getattr(node, 'lineno', 0), recv=base)
            st.trace.append(ev_)
        return [(st, res_)]
    raise Unsupported('subscript of %r (line %s)' % (base, getattr(node, 'lineno', '?')))


def setitem(ex, st, base, idx, v):
    """-> [(state, new_base | None | Raised)]; new_base is written back by the caller (value semantics)"""
    if isinstance(base, VSeq):
        if base.kind == 'tuple':
            return [(st, Raised('TypeError', note='tuple item assignment'))]
        i, ok = norm_index(st, base, to_int(idx))
        res = []
        for s2, b in ex.branch(st, ok):
            if not b:
                res.append((s2, Raised('IndexError', note='assignment index')))
                continue
            if base.concrete and z3.is_int_value(z3.simplify(i)):
                items = list(base.items)
                items[z3.simplify(i).as_long()] = v
                res.append((s2, VSeq(items, kind=base.kind)))
            else:
                res.append((s2, VSeq(length=base.length(), elem=lambda j, i=i: ite(j == i, v, base.elem(j)),
                                     kind=base.kind)))
        return res
    if isinstance(base, VDict):
        return [(st, dict_set(ex, st, base, idx, v))]
    if isinstance(base, VObj) and base.cls.startswith('$'):
        h = STUB_CLASSES[base.cls].get('__setitem__')
        if h is None:
            raise Unsupported('item assignment on %s' % base.cls)
        return h(ex, st, base, idx, v)
    if isinstance(base, VOpaque):
        from .engine import Event
        ev_ = Event('setitem', [base, idx, v], {}, None, dict(st.ghost), 0, recv=base)
        ev_.pre_ofields, ev_.pre_epoch = dict(st.ofields), st.epoch
        st.trace.append(ev_)
        ex.havoc_opaque_fields(st)
        return [(st, None)]
    raise Unsupported('item assignment on %r' % (base,))


def delitem(ex, st, base, idx):
    if isinstance(base, VDict):
        return dict_del(ex, st, base, idx)
    if isinstance(base, VOpaque):
        from .engine import Event
        ev_ = Event('delitem', [base, idx], {}, None, dict(st.ghost), 0, recv=base)
        ev_.pre_ofields, ev_.pre_epoch = dict(st.ofields), st.epoch
        st.trace.append(ev_)
        ex.havoc_opaque_fields(st)
        return [(st, None)]
    raise Unsupported('del item on %r' % (base,))


def slice(ex, st, base, lo, hi, step):
    if step is not None:
        raise Unsupported('slice step')
    if isinstance(base, VOpt):
        res = []
        for s2, fv in ex.force(st, base):
            if isinstance(fv, VNone):
                res.append((s2, Raised('TypeError', note='None is not subscriptable')))
            else:
                res.extend(slice(ex, s2, fv, lo, hi, step))
        return res
    if isinstance(base, VStr):
        from . import strings
        return strings.str_slice(ex, st, base, lo, hi)
    if isinstance(base, VBlob):
        from . import filemodel
        return filemodel.blob_slice(ex, st, base, lo, hi)
    if getattr(base, 'shape', None) == 'packed':
        from . import filemodel
        return filemodel.packed_slice(ex, st, base, lo, hi)
    if isinstance(base, VOpaque):
        ex.used_stubs.add('operators applied to opaque values yield opaque values (no TypeError modelled)')
        return [(st, VOpaque(name='slice'))]
    if not isinstance(base, VSeq):
        raise Unsupported('slice of %r' % (base,))
    n = base.length()

    def clampidx(v, default):
        if v is None or isinstance(v, VNone):
            return default
        t = to_int(v)
        t = z3.If(t < 0, z3.If(t + n < 0, 0, t + n), z3.If(t > n, n, t))
        return z3.simplify(t)
    a = clampidx(lo, z3.IntVal(0))
    b = clampidx(hi, n)
    if base.concrete and z3.is_int_value(a) and z3.is_int_value(b):
        return [(st, VSeq(base.items[a.as_long():b.as_long()], kind=base.kind))]
    ln = z3.If(b > a, b - a, 0)
    return [(st, VSeq(length=z3.simplify(ln), elem=lambda i: base.elem(a + i), kind=base.kind))]


def contains(ex, st, container, item):
    """-> [(state, z3Bool | Raised)]"""
    if isinstance(container, VOpt):
        res = []
        for s2, fv in ex.force(st, container):
            if isinstance(fv, VNone):
                res.append((s2, Raised('TypeError', note='argument of type NoneType is not iterable')))
            else:
                res.extend(contains(ex, s2, fv, item))
        return res
    if isinstance(container, VSeq):
        if container.concrete:
            if not container.items:
                return [(st, z3.BoolVal(False))]
            return [(st, z3.Or([py_eq(ex, st, item, x) for x in container.items]))]
        i = z3.Int(uid('qi'))
        return [(st, z3.Exists([i], z3.And(0 <= i, i < container.length(), eq(container.elem(i), item))))]
    if isinstance(container, VDict):
        return [(st, dict_has(ex, st, container, item))]
    if isinstance(container, VObj) and container.cls.startswith('$'):
        h = STUB_CLASSES[container.cls].get('__contains__')
        if h is None:
            raise Unsupported('`in` on %s' % container.cls)
        return h(ex, st, container, item)
    if isinstance(container, VStr) and isinstance(item, VStr):
        return [(st, z3.Contains(container.t, item.t))]
    if isinstance(container, VNone):
        return [(st, Raised('TypeError', note='argument of type NoneType is not iterable'))]
    if isinstance(container, VOpaque):
        # membership in an unknown container: an unknown truth value (a function of container, item and epoch);
        # recorded as a (pure) event so that trace conditions can refer to the answer
        from .engine import Event
        ck = concrete_key(item)
        if ck is not None:
            f = z3.Function('opaque_contains_%s_%d' % (abs(hash(ck)), st.epoch), ObjSort, z3.BoolSort())
            r_ = f(container.t)
        else:
            r_ = z3.Bool(uid('in'))
        ev_ = Event('contains', [container, item], {}, VBool(r_), dict(st.ghost), 0, recv=container)
        ev_.full = 'in'
        ev_.pre_ofields, ev_.pre_epoch = dict(st.ofields), st.epoch
        st.trace.append(ev_)
        return [(st, r_)]
        ck = concrete_key(item)
        f = z3.Function('opaque_contains_%s_%d' % (abs(hash(ck)) if ck is not None else 'sym', st.epoch), ObjSort, z3.BoolSort())
        if ck is not None:
            return [(st, f(container.t))]
        return [(st, z3.Bool(uid('in')))]
    raise Unsupported('`in` on %r' % (container,))


# ---------------------------------------------------------------------------------------------------------
# dicts (concrete keys, or symbolic int-keyed maps)
def symdict_len(d):
    return d.sym['len']


class Key(tuple):
    """a dict/set key as a tuple of z3 terms (scalars are 1-tuples; fixed-arity tuples of scalars are supported)"""


def keyterm(k):
    if isinstance(k, Key):
        return k
    if isinstance(k, VStr):
        return Key((k.t,))
    if isinstance(k, (VInt, VBool)):
        return Key((to_int(k),))
    if isinstance(k, VOpt):
        return keyterm(k.val)
    if isinstance(k, VSeq) and k.concrete and k.kind == 'tuple':
        out = ()
        for x in k.items:
            out = out + tuple(keyterm(x))
        return Key(out)
    if z3.is_expr(k):
        return Key((k,))
    raise Unsupported('symbolic dict key %r' % (k,))


def keq(a, b):
    a, b = keyterm(a), keyterm(b)
    if len(a) != len(b) or any(x.sort() != y.sort() for x, y in zip(a, b)):
        return z3.BoolVal(False)
    return z3.And([x == y for x, y in zip(a, b)]) if len(a) > 1 else a[0] == b[0]


def new_symdict(ex, st, name, vty, ksort=None, idx=(), fcache=None):
    """dict[K, T] of unknown content: present: K->Bool, val: K -> T, len (number of keys); K int or str.
    `fcache`: when given, the underlying uninterpreted functions are created once per (name) and reused, so that two
    evaluations of the same typed field denote the same dict."""
    ksort = ksort if ksort is not None else z3.IntSort()
    fcache = fcache if fcache is not None else {}
    key = (name, 'dict')
    if key not in fcache:
        presf = z3.Function(uid(name + '.has'), *([x.sort() for x in idx] + [ksort, z3.BoolSort()]))
        # note: typed (declared) symbolic dicts have scalar keys; tuple keys arise only from dict/set literals
        lenf = z3.Function(uid(name + '.len'), *([x.sort() for x in idx] + [z3.IntSort()])) if idx else z3.Int(uid(name + '.len'))
        fcache[key] = (presf, lenf, {})
    presf, lenf, cache = fcache[key]
    def pres(k):
        kt = keyterm(k)
        if len(kt) != 1 or kt[0].sort() != ksort:
            return z3.BoolVal(False)      # a key of another type is never a member of a map declared with key sort `ksort`
        return presf(*(tuple(idx) + tuple(kt)))
    n = lenf(*idx) if idx else lenf
    if not idx:
        st.assume(n >= 0)

    def val(k):
        kt = keyterm(k)
        if len(kt) != 1 or kt[0].sort() != ksort:
            return ex._fresh_fn(st, vty, name + '.junkval', tuple(idx), {})
        return ex._fresh_fn(st, vty, name + '.val', tuple(idx) + tuple(kt), cache)
    return VDict(sym={'has': lambda k: pres(k), 'val': val, 'len': n, 'ksort': ksort})


def concrete_to_symdict(ex, st, d, k):
    """a dict literal that receives a symbolic key becomes a symbolic map with the same content"""
    has = lambda j: z3.BoolVal(False)      # noqa
    val = None
    n = 0
    out = VDict(sym={'has': has, 'val': (lambda j: NONE), 'len': z3.IntVal(0)})
    for ck, v in d.items.items():
        out = dict_set(ex, st, out, key_value(ck), v)
    return out


def dict_has(ex, st, d, k):
    if d.items is not None:
        ck = concrete_key(k)
        if ck is not None:
            return z3.BoolVal(ck in d.items)
        if not d.items:
            return z3.BoolVal(False)
        return z3.Or([eq(k, key_value(x)) for x in d.items])
    return d.sym['has'](keyterm(k))


def dict_get(ex, st, d, k, node=None):
    if d.items is not None:
        ck = concrete_key(k)
        if ck is not None:
            if ck in d.items:
                return [(st, d.items[ck])]
            if st.spec:
                raise Unsupported('spec reads missing dict key')
            return [(st, Raised('KeyError', note=str(ck)))]
        # symbolic key over concrete dict: case split
        res = []
        rest = st
        for ck, v in d.items.items():
            for s2, b in ex.branch(rest.fork(), eq(k, key_value(ck))):
                if b:
                    res.append((s2, v))
            rest = rest.assume(z3.Not(eq(k, key_value(ck))))
        if ex.feasible(rest):
            res.append((rest, Raised('KeyError', note='symbolic key')))
        return res
    kk = keyterm(k)
    if st.spec:
        return [(st, d.sym['val'](kk))]
    res = []
    for s2, b in ex.branch(st, d.sym['has'](kk)):
        res.append((s2, d.sym['val'](kk) if b else Raised('KeyError', note='symbolic dict')))
    return res


def dict_set(ex, st, d, k, v):
    if d.items is not None:
        ck = concrete_key(k)
        if ck is None:
            d = concrete_to_symdict(ex, st, d, k)
            return dict_set(ex, st, d, k, v)
        items = dict(d.items)
        items[ck] = v
        return VDict(items)
    kk = keyterm(k)
    has, val, n = d.sym['has'], d.sym['val'], d.sym['len']
    return VDict(sym={'has': lambda j: z3.Or(keq(j, kk), has(j)),
                      'val': lambda j: ite(keq(j, kk), v, val(j)),
                      'len': z3.If(has(kk), n, n + 1)})


def dict_del(ex, st, d, k):
    if d.items is not None:
        ck = concrete_key(k)
        if ck is None:
            raise Unsupported('del with symbolic key on concrete dict')
        if ck not in d.items:
            return [(st, Raised('KeyError', note=str(ck)))]
        items = dict(d.items)
        del items[ck]
        return [(st, VDict(items))]
    kk = keyterm(k)
    has, val, n = d.sym['has'], d.sym['val'], d.sym['len']
    res = []
    for s2, b in ex.branch(st, has(kk)):
        if b:
            res.append((s2, VDict(sym={'has': lambda j: z3.And(z3.Not(keq(j, kk)), has(j)), 'val': val, 'len': n - 1})))
        else:
            res.append((s2, Raised('KeyError', note='symbolic dict')))
    return res


# ---------------------------------------------------------------------------------------------------------
# built-in functions.  signature: f(ex, st, args, kwargs, node) -> [(state, Value|Raised)]
@builtin('len')
def b_len(ex, st, args, kwargs, node):
    v = args[0]
    if isinstance(v, VSeq):
        return [(st, VInt(v.length()))]
    if isinstance(v, VStr):
        return [(st, VInt(z3.Length(v.t)))]
    if isinstance(v, VBlob):
        return [(st, VInt(v.len))]
    if isinstance(v, VDict):
        if v.items is not None:
            return [(st, VInt(len(v.items)))]
        return [(st, VInt(v.sym['len']))]
    if isinstance(v, VOpt):
        res = []
        for s2, fv in ex.force(st, v):
            if isinstance(fv, VNone):
                res.append((s2, Raised('TypeError', note='len(None)')))
            else:
                res.extend(b_len(ex, s2, [fv], kwargs, node))
        return res
    if isinstance(v, VNone):
        return [(st, Raised('TypeError', note='len(None)'))]
    if isinstance(v, VObj) and v.cls.startswith('$'):
        h = STUB_CLASSES[v.cls].get('__len__')
        if h:
            return h(ex, st, v)
    if isinstance(v, VOpaque):
        # unknown container: an unknown non-negative length, the same for the same value (a TypeError is not modelled)
        n = z3.Function('opaque_len', ObjSort, z3.IntSort())(v.t)
        st.assume(n >= 0)
        ex.used_stubs.add('len(unknown value): unknown non-negative integer, functional (no TypeError modelled)')
        return [(st, VInt(n))]
    raise Unsupported('len(%r)' % (v,))


@builtin('range')
def b_range(ex, st, args, kwargs, node):
    a = [to_int(x) for x in args]
    if len(a) == 1:
        start, stop, step = z3.IntVal(0), a[0], z3.IntVal(1)
    elif len(a) == 2:
        start, stop, step = a[0], a[1], z3.IntVal(1)
    else:
        start, stop, step = a
    if not z3.is_int_value(step):
        res = []
        for s2, b in (ex.branch(st, step == 0) if not st.spec else [(st, False)]):
            if b:
                res.append((s2, Raised('ValueError', note='range() arg 3 must not be zero')))
            else:
                res.append((s2, range_seq(start, stop, step)))
        return res
    if step.as_long() == 0:
        return [(st, Raised('ValueError', note='range() arg 3 must not be zero'))]
    return [(st, range_seq(start, stop, step))]


@builtin('list')
def b_list(ex, st, args, kwargs, node):
    if not args:
        return [(st, VSeq([], kind='list'))]
    return [(s, v if isinstance(v, Raised) else v.with_kind('list')) for s, v in as_seq(ex, st, args[0])]


@builtin('tuple')
def b_tuple(ex, st, args, kwargs, node):
    if not args:
        return [(st, VSeq([], kind='tuple'))]
    return [(s, v if isinstance(v, Raised) else v.with_kind('tuple')) for s, v in as_seq(ex, st, args[0])]


@builtin('set')
def b_set(ex, st, args, kwargs, node):
    if not args:
        # a set is a dict without values: membership + cardinality (len grows only when a new key is added)
        d = VDict(sym={'has': lambda j: z3.BoolVal(False), 'val': (lambda j: NONE), 'len': z3.IntVal(0)})
        d.is_set = True
        return [(st, d)]
    if isinstance(args[0], VSeq) and args[0].concrete:
        outs = b_set(ex, st, [], {}, node)
        d = outs[0][1]
        for x in args[0].items:
            d = dict_set(ex, st, d, x, NONE)
            d.is_set = True
        return [(st, d)]
    if isinstance(args[0], VOpaque):
        ex.used_stubs.add('set(unknown iterable): an unknown container (membership tests on it are unknown, functional)')
        return [(st, VOpaque(name='set'))]
    raise Unsupported('set(iterable)')


@method('dict', 'add')
def set_m_add(ex, st, selfv, args, kwargs, node):
    new = dict_set(ex, st, selfv, args[0], NONE)
    new.is_set = True
    return [(s, NONE) for s in writeback(ex, st, node, new)]


@builtin('dict')
def b_dict(ex, st, args, kwargs, node):
    if not args:
        return [(st, VDict({('s', k): v for k, v in kwargs.items()}))]
    if isinstance(args[0], VDict) and args[0].items is not None:
        d = dict(args[0].items)
        d.update({('s', k): v for k, v in kwargs.items()})
        return [(st, VDict(d))]
    from .values import VDictItems
    if isinstance(args[0], VDictItems) and not kwargs:
        return [(st, args[0].d)]
    raise Unsupported('dict(...) of %r' % (args[0],))


@builtin('object')
def b_object(ex, st, args, kwargs, node):
    return [(st, VOpaque(name='object'))]


@builtin('int')
def b_int(ex, st, args, kwargs, node):
    if not args:
        return [(st, VInt(0))]
    v = args[0]
    if isinstance(v, (VInt, VBool)):
        return [(st, VInt(to_int(v)))]
    if isinstance(v, VReal):
        idv = getattr(v, 'intdiv', None)
        if idv is not None and z3.is_int_value(idv[1]) and idv[1].as_long() > 0:
            a_, b_ = idv      # trunc(a / b) for integers a, b > 0 in integer arithmetic (z3 div floors for b > 0)
            if not st.spec and not ex.feasible(st, a_ < 0):
                return [(st, VInt(a_ / b_))]
            return [(st, VInt(z3.If(a_ >= 0, a_ / b_, -((-a_) / b_))))]
        return [(st, VInt(trunc_real(v.t)))]
    if isinstance(v, VStr):
        from . import strings
        return strings.int_of_str(ex, st, v, args[1:], node)
    if isinstance(v, VOpt):
        res = []
        for s2, fv in ex.force(st, v):
            if isinstance(fv, VNone):
                res.append((s2, Raised('TypeError', note='int(None)')))
            else:
                res.extend(b_int(ex, s2, [fv] + list(args[1:]), kwargs, node))
        return res
    if isinstance(v, VNone):
        return [(st, Raised('TypeError', note='int(None)'))]
    if isinstance(v, VOpaque):
        return [(st, VInt(z3.Int(uid('int_of_opaque')))), (st.fork(), Raised('ValueError', note='int() of an unknown value'))]
    raise Unsupported('int(%r)' % (v,))


@builtin('float')
def b_float(ex, st, args, kwargs, node):
    v = args[0]
    if is_num(v):
        return [(st, VReal(to_real(v)))]
    if isinstance(v, VStr):
        from . import strings
        return strings.float_of_str(ex, st, v, node)
    if isinstance(v, (VNone, VSeq)):
        return [(st, Raised('TypeError', note='float(%s)' % v.shape))]
    raise Unsupported('float(%r)' % (v,))


@builtin('bool')
def b_bool(ex, st, args, kwargs, node):
    return [(st, VBool(ex.truth(st, args[0])))]


@builtin('str')
def b_str(ex, st, args, kwargs, node):
    if not args:
        return [(st, VStr(''))]
    return [(st, to_str(ex, st, args[0]))]


@builtin('bytes')
def b_bytes(ex, st, args, kwargs, node):
    raise Unsupported('bytes()')


def to_str(ex, st, v):
    from . import strings
    return strings.to_str(ex, st, v)


@builtin('abs')
def b_abs(ex, st, args, kwargs, node):
    v = args[0]
    if isinstance(v, VInt):
        return [(st, VInt(z3.If(v.t >= 0, v.t, -v.t)))]
    if isinstance(v, VReal):
        return [(st, VReal(z3.If(v.t >= 0, v.t, -v.t)))]
    raise Unsupported('abs(%r)' % (v,))


def _minmax(ex, st, args, kwargs, node, is_max):
    if kwargs:
        raise Unsupported('min/max with key/default')
    if len(args) == 1:
        sq = args[0]
        if isinstance(sq, VSeq) and sq.concrete and sq.items:
            args = sq.items
        else:
            raise Unsupported('min/max over a symbolic sequence')
    r = args[0]
    for v in args[1:]:
        if isinstance(r, (VOpt, VNone)) or isinstance(v, (VOpt, VNone)):
            raise Unsupported('min/max with None')
        if isinstance(r, (VInt, VBool)) and isinstance(v, (VInt, VBool)):
            c = (to_int(v) > to_int(r)) if is_max else (to_int(v) < to_int(r))
        elif is_num(r) and is_num(v):
            c = (to_real(v) > to_real(r)) if is_max else (to_real(v) < to_real(r))
        else:
            raise Unsupported('min/max of %r, %r' % (r, v))
        # Python keeps the first of equal elements; int/real mix keeps each one's type - merged to real
        r = ite(c, v, r)
    return [(st, r)]


@builtin('max')
def b_max(ex, st, args, kwargs, node):
    return _minmax(ex, st, args, kwargs, node, True)


@builtin('min')
def b_min(ex, st, args, kwargs, node):
    return _minmax(ex, st, args, kwargs, node, False)


@builtin('round')
def b_round(ex, st, args, kwargs, node):
    v = args[0]
    if len(args) == 1:
        if isinstance(v, VInt):
            return [(st, v)]
        n = z3.Int(uid('rnd'))
        x = to_real(v)
        # round-half-even: |x - n| <= 1/2 (the tie is left open: both choices are covered)
        st.assume(z3.And(z3.ToReal(n) - x <= z3.RealVal('1/2'), x - z3.ToReal(n) <= z3.RealVal('1/2')))
        return [(st, VInt(n))]
    nd = args[1].conc() if isinstance(args[1], VInt) else None
    if nd is None or nd < 0:
        raise Unsupported('round(x, symbolic/negative digits)')
    if isinstance(v, VInt):
        return [(st, v)]
    e = z3.Real(uid('rerr'))
    half = z3.RealVal('1/%d' % (2 * 10 ** nd))
    st.assume(z3.And(-half <= e, e <= half))
    ex.used_stubs.add('round(x, n) = x + e with |e| <= 0.5*10^-n  (A-real)')
    return [(st, VReal(to_real(v) + e))]


@builtin('isinstance')
def b_isinstance(ex, st, args, kwargs, node):
    v, t = args

    def names(tv):
        if isinstance(tv, VSeq) and tv.concrete:
            out = []
            for x in tv.items:
                out.extend(names(x))
            return out
        if isinstance(tv, VFunc):
            return [tv.name if tv.kind != 'class' else tv.target.key]
        raise Unsupported('isinstance type %r' % (tv,))
    tn = names(t)
    if isinstance(v, VOpt):
        res = []
        for s2, fv in ex.force(st, v):
            res.extend(b_isinstance(ex, s2, [fv, t], kwargs, node))
        return res
    shape_names = {
        'int': ['int'], 'bool': ['bool', 'int'], 'real': ['float'], 'str': ['str'], 'none': [],
        'seq': [], 'dict': ['dict'], 'blob': ['bytes'],
    }
    if isinstance(v, VSeq):
        mine = [v.kind]
    elif isinstance(v, VStr):
        mine = ['bytes'] if v.isbytes else ['str']
    elif isinstance(v, VObj):
        ci = ex.class_info(v.cls)
        mine = [c.key for c in ex.db.mro(ci)] if ci else [v.cls]
    elif isinstance(v, VFunc) and v.kind == 'excinst':
        r = any(ex.exc_isinstance(v.target[0], n.split(':')[-1].split('.')[-1]) for n in tn)
        return [(st, VBool(r))]
    elif isinstance(v, VOpaque):
        # an opaque value is an instance of some class we know nothing about; it is NOT one of the builtin
        # value types (those are modelled by their own shapes)
        # an unknown value may be an instance of anything (also of tuple / str ...): unknown, but a function of the value
        # and the class list - the same test on the same value gives the same answer
        import re as _re
        nm = _re.sub(r'[^A-Za-z0-9_]', '_', '_or_'.join(sorted(tn)))
        return [(st, VBool(z3.Function('opaque_isinstance_' + nm, ObjSort, z3.BoolSort())(v.t)))]
    else:
        mine = shape_names.get(v.shape, [])
    return [(st, VBool(any(n in mine for n in tn)))]


@builtin('enumerate')
def b_enumerate(ex, st, args, kwargs, node):
    res = []
    for s, sq in as_seq(ex, st, args[0], for_iter=True):
        if isinstance(sq, Raised):
            res.append((s, sq))
        elif sq.concrete:
            res.append((s, VSeq([VSeq([VInt(i), x], kind='tuple') for i, x in enumerate(sq.items)], kind='list')))
        else:
            res.append((s, VSeq(length=sq.length(), elem=lambda i, sq=sq: VSeq([VInt(i), sq.elem(i)], kind='tuple'),
                                kind='list')))
    return res


@builtin('zip')
def b_zip(ex, st, args, kwargs, node):
    seqs = []
    for a in args:
        o = as_seq(ex, st, a)
        if len(o) != 1 or isinstance(o[0][1], Raised):
            raise Unsupported('zip over forking iterables')
        seqs.append(o[0][1])
    if all(s.concrete for s in seqs):
        n = min(len(s.items) for s in seqs)
        return [(st, VSeq([VSeq([s.items[i] for s in seqs], kind='tuple') for i in range(n)], kind='list'))]
    n = seqs[0].length()
    for s in seqs[1:]:
        n = z3.If(s.length() < n, s.length(), n)
    return [(st, VSeq(length=n, elem=lambda i: VSeq([s.elem(i) for s in seqs], kind='tuple'), kind='list'))]


@builtin('all')
def b_all(ex, st, args, kwargs, node):
    return _anyall(ex, st, args[0], True)


@builtin('any')
def b_any(ex, st, args, kwargs, node):
    return _anyall(ex, st, args[0], False)


def _anyall(ex, st, v, is_all):
    res = []
    for s, sq in as_seq(ex, st, v, allow_filtered=True):
        if isinstance(sq, Raised):
            res.append((s, sq))
            continue
        if sq.concrete:
            ts = [ex.truth(s, x) for x in sq.items]
            if not ts:
                res.append((s, VBool(is_all)))
            else:
                res.append((s, VBool(z3.And(ts) if is_all else z3.Or(ts))))
        else:
            i = z3.Int(uid('qi'))
            body = ex.truth(s, sq.elem(i))
            rng = z3.And(0 <= i, i < sq.length())
            if getattr(sq, 'keep', None) is not None:
                rng = z3.And(rng, sq.keep(i))
            if is_all:
                res.append((s, VBool(z3.ForAll([i], z3.Implies(rng, body)))))
            else:
                res.append((s, VBool(z3.Exists([i], z3.And(rng, body)))))
    return res


@builtin('sum')
def b_sum(ex, st, args, kwargs, node):
    sq = args[0]
    if isinstance(sq, VSeq) and sq.concrete:
        r = VInt(0)
        outs = [(st, r)]
        for x in sq.items:
            outs = [(s2, v2) for s, acc in outs for s2, v2 in binop(ex, s, ast.Add(), acc, x)]
        return outs
    raise Unsupported('sum over symbolic sequence')


@builtin('sorted')
def b_sorted(ex, st, args, kwargs, node):
    sq = args[0]
    if isinstance(sq, VSeq) and sq.concrete and len(sq.items) <= 1:
        return [(st, sq.with_kind('list'))]
    if not st.spec and isinstance(sq, (VSeq, VOpaque, VDict)):
        # some list with as many elements (order and content not modelled)
        if isinstance(sq, VSeq):
            n = sq.length()
        elif isinstance(sq, VDict) and sq.items is not None:
            n = z3.IntVal(len(sq.items))
        else:
            n = z3.Int(uid('sorted.len'))
            st.assume(n >= 0)
        f = z3.Function(uid('sorted'), z3.IntSort(), ObjSort)
        ex.used_stubs.add('sorted(x): an unknown list of the same length (order and content not modelled)')
        return [(st, VSeq(length=n, elem=lambda i, f=f: VOpaque(f(i)), kind='list'))]
    raise Unsupported('sorted()')


@builtin('reversed')
def b_reversed(ex, st, args, kwargs, node):
    sq = args[0]
    if isinstance(sq, VSeq):
        if sq.concrete:
            return [(st, VSeq(list(reversed(sq.items)), kind='list'))]
        n = sq.length()
        return [(st, VSeq(length=n, elem=lambda i: sq.elem(n - 1 - i), kind='list'))]
    raise Unsupported('reversed()')


@builtin('hash')
def b_hash(ex, st, args, kwargs, node):
    # hash() of str/bytes is salted per interpreter start (PYTHONHASHSEED): a function of the value AND of a per-process seed
    ex.used_stubs.add('hash(x): uninterpreted function of x and the per-process hash seed')
    seed = z3.Const('PYTHONHASHSEED', z3.IntSort())
    v = args[0]
    if isinstance(v, VStr):
        return [(st, VInt(z3.Function('py_hash_str', z3.StringSort(), z3.IntSort(), z3.IntSort())(v.t, seed)))]
    if isinstance(v, VInt):
        return [(st, VInt(v.t))]
    if isinstance(v, VOpaque):
        return [(st, VInt(z3.Function('py_hash_obj', ObjSort, z3.IntSort(), z3.IntSort())(v.t, seed)))]
    raise Unsupported('hash() of %s' % v.shape)


@builtin('super')
def b_super(ex, st, args, kwargs, node):
    # the base-class view of self: calls on it are opaque events (the base initialiser is not followed)
    ex.used_stubs.add('super(...): an opaque proxy; base-class methods called through it are opaque callees')
    return [(st, VOpaque(name='super'))]


@builtin('hasattr')
def b_hasattr(ex, st, args, kwargs, node):
    raise Unsupported('hasattr')


@builtin('getattr')
def b_getattr(ex, st, args, kwargs, node):
    name = args[1].conc() if isinstance(args[1], VStr) else None
    if name is None:
        if not st.spec and (ex.cur_target or {}).get('default_callee') == 'opaque':
            # dynamic dispatch by a computed name: an unknown attribute (calling it is an opaque event)
            ex.used_stubs.add('getattr(obj, <computed name>): an unknown value (dynamic dispatch is an opaque call)')
            return [(st, VOpaque(name='getattr'))]
        raise Unsupported('getattr with symbolic name')
    return ex.getattr(st, args[0], name, node)


@builtin('print')
def b_print(ex, st, args, kwargs, node):
    return [(st, NONE)]


@builtin('id')
def b_id(ex, st, args, kwargs, node):
    raise Unsupported('id()')


@builtin('iter')
def b_iter(ex, st, args, kwargs, node):
    if len(args) == 1:
        if isinstance(args[0], VOpaque):
            # an iterator over an unknown object: unknown, but a function of that object
            return [(st, VOpaque(z3.Function('opaque_iter', ObjSort, ObjSort)(args[0].t)))]
        return as_seq(ex, st, args[0])
    if len(args) == 2 and isinstance(args[0], VFunc) and not st.spec:
        # iter(callable, sentinel): the chunks the callable will deliver - nothing is called now
        ex.used_stubs.add('iter(callable, sentinel): an unknown iterator (the callable is not invoked at construction)')
        return [(st, VOpaque(name='iter_callable'))]
    raise Unsupported('iter(callable, sentinel)')


@builtin('hasattr')
def b_hasattr(ex, st, args, kwargs, node):
    o, name = args
    nm = name.conc() if isinstance(name, VStr) else None
    if nm is None:
        raise Unsupported('hasattr with a symbolic name')
    if isinstance(o, VOpt):
        res = []
        for s2, fv in ex.force(st, o):
            res.extend(b_hasattr(ex, s2, [fv, name], kwargs, node))
        return res
    if isinstance(o, VOpaque):
        import re as _re
        ex.used_stubs.add('hasattr(unknown value, name): unknown but functional')
        f = z3.Function('opaque_hasattr_' + _re.sub(r'[^A-Za-z0-9_]', '_', nm), ObjSort, z3.BoolSort())
        return [(st, VBool(f(o.t)))]
    if isinstance(o, VObj):
        cdecl = ex.reg.class_decl(o.cls, ex.db)
        if (cdecl is not None and nm in cdecl['fields']) or nm in st.heap.get(o.ref, {}):
            return [(st, VBool(True))]
        ci = ex.class_info(o.cls)
        if ci is not None and (ex.db.find_method(ci, nm) is not None or ex.db.find_class_attr(ci, nm) is not None):
            return [(st, VBool(True))]
        raise Unsupported('hasattr on an object whose attribute %s is not declared' % nm)
    # builtin value shapes: lists, strings, numbers, None have none of the file-like / mapping attributes asked for in the code base
    known = {'seq': ('append', 'extend', 'index', 'count', '__iter__', '__len__', '__getitem__'),
             'str': ('encode', 'decode', 'lower', 'upper', 'split', 'join', 'startswith', 'endswith', '__len__', '__iter__'),
             'dict': ('keys', 'values', 'items', 'get', '__iter__', '__len__', '__getitem__')}
    if o.shape in known:
        return [(st, VBool(nm in known[o.shape]))]
    if o.shape in ('none', 'int', 'real', 'bool'):
        return [(st, VBool(False))] if not nm.startswith('__') else (_ for _ in ()).throw(Unsupported('hasattr dunder on number'))
    raise Unsupported('hasattr on %s' % o.shape)


@builtin('next')
def b_next(ex, st, args, kwargs, node):
    # next(it) on a sequence view: its first element (StopIteration if empty); the iterator state is not advanced
    # (only single next() uses are supported)
    res = []
    for s2, sq in as_seq(ex, st, args[0]):
        if isinstance(sq, Raised):
            res.append((s2, sq))
            continue
        for s3, b in ex.branch(s2, sq.length() > 0):
            res.append((s3, sq.elem(z3.IntVal(0)) if b else (args[1] if len(args) > 1 else Raised('StopIteration'))))
    return res


@builtin('callable')
def b_callable(ex, st, args, kwargs, node):
    v = args[0]
    if isinstance(v, VOpt):
        inner = b_callable(ex, st, [v.val], kwargs, node)[0][1]
        return [(st, VBool(z3.And(z3.Not(v.isnone), inner.t)))]
    if isinstance(v, VOpaque):
        # an unknown value may or may not be callable: unknown, but a function of the value
        return [(st, VBool(z3.Function('opaque_callable', ObjSort, z3.BoolSort())(v.t)))]
    return [(st, VBool(isinstance(v, VFunc)))]


@builtin('open')
def b_open(ex, st, args, kwargs, node):
    from . import filemodel
    return filemodel.b_open(ex, st, args, kwargs, node)


# --- math -----------------------------------------------------------------------------------------------
@extern('math.floor')
def m_floor(ex, st, args, kwargs, node):
    v = args[0]
    if isinstance(v, VInt):
        return [(st, v)]
    return [(st, VInt(floor_real(to_real(v))))]


@extern('math.ceil')
def m_ceil(ex, st, args, kwargs, node):
    v = args[0]
    if isinstance(v, VInt):
        return [(st, v)]
    return [(st, VInt(ceil_real(to_real(v))))]


@extern('math.sqrt')
def m_sqrt(ex, st, args, kwargs, node):
    x = to_real(args[0])
    r = z3.Real(uid('sqrt'))
    res = []
    for s2, neg in (ex.branch(st, x < 0) if not st.spec else [(st, False)]):
        if neg:
            res.append((s2, Raised('ValueError', note='math domain error')))
        else:
            s2.assume(z3.And(r >= 0, r * r == x))
            res.append((s2, VReal(r)))
    return res


def _sp_fmt0d(ex, st, args, kwargs, node):
    from . import strings
    return [(st, strings.int_to_str_pad(ex, st, to_int(args[1]), args[0].conc()))]


def _sp_fmt0x(ex, st, args, kwargs, node):
    from . import strings
    return [(st, strings.int_to_str_pad(ex, st, to_int(args[1]), args[0].conc(), hexa=True))]


def _sp_fmtd(ex, st, args, kwargs, node):
    from . import strings
    return [(st, strings.int_to_str(ex, st, to_int(args[0])))]


BUILTINS['fmtd'] = _sp_fmtd        # spec dialect: str(n)


@builtin('map')
def b_map(ex, st, args, kwargs, node):
    """map(f, seq) over a sequence of known length (eager)"""
    outs = as_seq(ex, st, args[1])
    res = []
    for s2, sq in outs:
        if isinstance(sq, Raised):
            res.append((s2, sq))
            continue
        if not sq.concrete:
            raise Unsupported('map() over a sequence of symbolic length')
        cur = [(s2, [])]
        for item in sq.items:
            nxt = []
            for s3, acc in cur:
                for s4, v in ex.call_value(s3, args[0], [item], {}, node):
                    if isinstance(v, Raised):
                        res.append((s4, v))
                    else:
                        nxt.append((s4, acc + [v]))
            cur = nxt
        res.extend((s3, VSeq(acc, kind='list')) for s3, acc in cur)
    return res


BUILTINS['fmt0d'] = _sp_fmt0d      # spec dialect: '%0Kd' % n
BUILTINS['fmt0x'] = _sp_fmt0x      # spec dialect: '%0Kx' % n
BUILTINS['floor'] = m_floor      # spec dialect
BUILTINS['ceil'] = m_ceil
md5hex = z3.Function('md5hex', z3.StringSort(), z3.StringSort())


@extern('hashlib.new')
def h_new(ex, st, args, kwargs, node):
    obj = ex.new_ref(st, '$hash')
    st.heap[obj.ref]['algo'] = args[0]
    st.heap[obj.ref]['data'] = args[1] if len(args) > 1 else VStr('', isbytes=True)
    ex.used_stubs.add('hashlib digests: uninterpreted function of the input bytes')
    return [(st, obj)]


@extern('hashlib.md5')
def h_md5(ex, st, args, kwargs, node):
    return h_new(ex, st, [VStr('md5')] + list(args), kwargs, node)


STUB_CLASSES['$hash'] = {
    'hexdigest': lambda ex, st, v, args, kwargs, node: [(st, VStr(md5hex(z3.Concat(st.heap[v.ref]['algo'].t, z3.StringVal(':'), st.heap[v.ref]['data'].t))))],
}


@extern('datetime.timedelta')
def dt_timedelta(ex, st, args, kwargs, node):
    """datetime.timedelta(days, seconds, microseconds, milliseconds, minutes, hours, weeks): a duration; only its length in
    seconds is modelled (mathematical real - timedelta itself rounds to microseconds)"""
    names = ['days', 'seconds', 'microseconds', 'milliseconds', 'minutes', 'hours', 'weeks']
    factor = {'days': 86400, 'seconds': 1, 'microseconds': z3.RealVal('1/1000000'), 'milliseconds': z3.RealVal('1/1000'),
              'minutes': 60, 'hours': 3600, 'weeks': 604800}
    vals = dict(zip(names, args))
    for k, v in kwargs.items():
        if k not in factor or k in vals:
            raise Unsupported('timedelta(%s=)' % k)
        vals[k] = v
    total = z3.RealVal(0)
    for k, v in vals.items():
        if not isinstance(v, (VInt, VReal)):
            raise Unsupported('timedelta(%s=<%s>)' % (k, v.shape))
        total = total + to_real(v) * factor[k]
    obj = ex.new_ref(st, '$timedelta')
    st.heap[obj.ref]['secs'] = VReal(z3.simplify(total))
    ex.used_stubs.add('datetime.timedelta: only total_seconds() is modelled (exact real, no microsecond rounding, no OverflowError beyond 999999999 days)')
    return [(st, obj)]


STUB_CLASSES['$timedelta'] = {
    'total_seconds': lambda ex, st, v, args, kwargs, node: [(st, st.heap[v.ref]['secs'])],
}


EXTERNS['os.O_RDONLY'] = VInt(0)
EXTERNS['os.O_WRONLY'] = VInt(1)
EXTERNS['os.O_RDWR'] = VInt(2)
EXTERNS['os.O_CREAT'] = VInt(64)
EXTERNS['os.O_EXCL'] = VInt(128)
EXTERNS['os.O_TRUNC'] = VInt(512)
EXTERNS['sys.platform'] = VStr('linux')
EXTERNS['errno.ENOENT'] = VInt(2)
EXTERNS['errno.EEXIST'] = VInt(17)
EXTERNS['errno.EACCES'] = VInt(13)
EXTERNS['math.pi'] = VReal(z3.RealVal('3.141592653589793'))


@extern('math.log')
def m_log(ex, st, args, kwargs, node):
    raise Unsupported('math.log')


@extern('math.pow')
def m_pow(ex, st, args, kwargs, node):
    raise Unsupported('math.pow')


# ---------------------------------------------------------------------------------------------------------
# methods on builtin values
def call_method(ex, st, selfv, name, args, kwargs, node):
    if isinstance(selfv, VObj) and selfv.cls.startswith('$'):
        h = STUB_CLASSES[selfv.cls].get(name)
        if h is None:
            raise Unsupported('method %s.%s' % (selfv.cls, name))
        return h(ex, st, selfv, args, kwargs, node)
    h = METHODS.get((selfv.shape, name))
    if h is None and isinstance(selfv, VStr) and name in ('rstrip', 'lstrip', 'strip', 'replace', 'title', 'capitalize'):
        # string -> string methods without a precise model: an uninterpreted function of the receiver and the
        # (string) arguments (deterministic, nothing else is known about the result)
        sargs = [a for a in args if isinstance(a, VStr)]
        if len(sargs) == len(args):
            f = z3.Function('str_%s_%d' % (name, len(args)), *([z3.StringSort()] * (len(args) + 2)))
            ex.used_stubs.add('str.%s(): uninterpreted string function' % name)
            return [(st, VStr(f(selfv.t, *[a.t for a in sargs])))]
    if h is None:
        if isinstance(selfv, VOpaque):
            return ex.opaque_call(st, ex.describe_callee(node), selfv, args, kwargs, node)
        raise Unsupported('method %s.%s (line %s)' % (selfv.shape, name, getattr(node, 'lineno', '?')))
    return h(ex, st, selfv, args, kwargs, node)


def writeback(ex, st, node, newval):
    """value semantics for mutating methods: `x.append(v)` rebinds x (x a Name/Attribute/Subscript)."""
    tgt = node.func.value
    outs = ex.assign_target_f(st, tgt, newval)
    for s, r in outs:
        if isinstance(r, Raised):
            raise Unsupported('write-back raised')
    return [s for s, _ in outs]


@method('seq', 'append')
def seq_m_append(ex, st, selfv, args, kwargs, node):
    new = seq_append(ex, st, selfv, args[0])
    if not st.spec and (ex.cur_target or {}).get('default_callee') == 'opaque':
        # orchestration targets: what is queued on a work list is observable for trace clauses (pure event)
        from .engine import Event
        st.trace.append(Event('append', [selfv, args[0]], {}, None, dict(st.ghost), getattr(node, 'lineno', 0), recv=None))
    return [(s, NONE) for s in writeback(ex, st, node, new)]


@method('seq', 'sort')
def seq_m_sort(ex, st, selfv, args, kwargs, node):
    """in-place sort: the list becomes SOME list of the same length (the permutation / order is not modelled)"""
    if st.spec:
        raise Unsupported('sort in spec')
    n = selfv.length()
    if selfv.concrete and len(selfv.items) <= 1:
        return [(st, NONE)]
    f = z3.Function(uid('sorted'), z3.IntSort(), ObjSort)
    new = VSeq(length=n, elem=lambda i, f=f: VOpaque(f(i)), kind='list')
    ex.used_stubs.add('list.sort(): an unknown list of the same length (order and multiset not modelled)')
    return [(s, NONE) for s in writeback(ex, st, node, new)]


@method('seq', 'extend')
def seq_m_extend(ex, st, selfv, args, kwargs, node):
    res = []
    for s, sq in as_seq(ex, st, args[0]):
        if isinstance(sq, Raised):
            res.append((s, sq))
        else:
            res.extend((s2, NONE) for s2 in writeback(ex, s, node, seq_concat(selfv, sq.with_kind(selfv.kind))))
    return res


@method('seq', 'pop')
def seq_m_pop(ex, st, selfv, args, kwargs, node):
    n = selfv.length()
    res = []
    if args:
        i = args[0].conc()
        if i != 0:
            raise Unsupported('list.pop(i) for i != 0')
        for s2, b in ex.branch(st, n > 0):
            if not b:
                res.append((s2, Raised('IndexError', note='pop from empty list')))
            else:
                v = selfv.elem(z3.IntVal(0))
                new = VSeq(selfv.items[1:], kind=selfv.kind) if selfv.concrete else \
                    VSeq(length=n - 1, elem=lambda i: selfv.elem(i + 1), kind=selfv.kind)
                res.extend((s3, v) for s3 in writeback(ex, s2, node, new))
        return res
    for s2, b in ex.branch(st, n > 0):
        if not b:
            res.append((s2, Raised('IndexError', note='pop from empty list')))
        else:
            v = selfv.elem(z3.simplify(n - 1))
            new = VSeq(selfv.items[:-1], kind=selfv.kind) if selfv.concrete else \
                VSeq(length=n - 1, elem=selfv.elem, kind=selfv.kind)
            res.extend((s3, v) for s3 in writeback(ex, s2, node, new))
    return res


@method('seq', 'index')
def seq_m_index(ex, st, selfv, args, kwargs, node):
    raise Unsupported('list.index')


@method('seq', 'add')
def seq_m_add(ex, st, selfv, args, kwargs, node):
    # set.add: membership semantics only
    new = seq_append(ex, st, selfv, args[0])
    return [(s, NONE) for s in writeback(ex, st, node, new)]


@method('dict', 'get')
def dict_m_get(ex, st, selfv, args, kwargs, node):
    default = args[1] if len(args) > 1 else NONE
    k = args[0]
    if selfv.items is not None:
        ck = concrete_key(k)
        if ck is not None:
            return [(st, selfv.items.get(ck, default))]
        res = []
        rest = st
        for ck, v in selfv.items.items():
            for s2, b in ex.branch(rest.fork(), eq(k, key_value(ck))):
                if b:
                    res.append((s2, v))
            rest = rest.assume(z3.Not(eq(k, key_value(ck))))
        if ex.feasible(rest):
            res.append((rest, default))
        return res
    kk = keyterm(k)
    res = []
    for s2, b in ex.branch(st, selfv.sym['has'](kk)):
        res.append((s2, selfv.sym['val'](kk) if b else default))
    return res


@method('dict', 'pop')
def dict_m_pop(ex, st, selfv, args, kwargs, node):
    k = args[0]
    if selfv.items is not None:
        ck = concrete_key(k)
        if ck is None:
            raise Unsupported('dict.pop symbolic key on concrete dict')
        if ck in selfv.items:
            items = dict(selfv.items)
            v = items.pop(ck)
            return [(s, v) for s in writeback(ex, st, node, VDict(items))]
        if len(args) > 1:
            return [(st, args[1])]
        return [(st, Raised('KeyError', note=str(ck)))]
    kk = keyterm(k)
    has, val, n = selfv.sym['has'], selfv.sym['val'], selfv.sym['len']
    res = []
    for s2, b in ex.branch(st, has(kk)):
        if b:
            v = val(kk)
            new = VDict(sym={'has': lambda j: z3.And(z3.Not(keq(j, kk)), has(j)), 'val': val, 'len': n - 1})
            res.extend((s3, v) for s3 in writeback(ex, s2, node, new))
        elif len(args) > 1:
            res.append((s2, args[1]))
        else:
            res.append((s2, Raised('KeyError', note='symbolic dict')))
    return res


@method('dict', 'items')
def dict_m_items(ex, st, selfv, args, kwargs, node):
    if selfv.items is not None:
        return [(st, VSeq([VSeq([key_value(k), v], kind='tuple') for k, v in selfv.items.items()], kind='list'))]
    if selfv.sym.get('ksort') is not None:
        from .values import VDictItems
        return [(st, VDictItems(selfv))]
    raise Unsupported('items() of a symbolic dict')


@method('dict', 'keys')
def dict_m_keys(ex, st, selfv, args, kwargs, node):
    if selfv.items is not None:
        return [(st, VSeq([key_value(k) for k in selfv.items], kind='list'))]
    raise Unsupported('keys() of a symbolic dict')


@method('dict', 'values')
def dict_m_values(ex, st, selfv, args, kwargs, node):
    if selfv.items is not None:
        return [(st, VSeq(list(selfv.items.values()), kind='list'))]
    raise Unsupported('values() of a symbolic dict')


@method('dict', 'copy')
def dict_m_copy(ex, st, selfv, args, kwargs, node):
    return [(st, selfv)]


@method('dict', 'setdefault')
def dict_m_setdefault(ex, st, selfv, args, kwargs, node):
    if selfv.items is None:
        raise Unsupported('setdefault on symbolic dict')
    ck = concrete_key(args[0])
    if ck is None:
        raise Unsupported('setdefault symbolic key')
    if ck in selfv.items:
        return [(st, selfv.items[ck])]
    items = dict(selfv.items)
    items[ck] = args[1] if len(args) > 1 else NONE
    return [(s, items[ck]) for s in writeback(ex, st, node, VDict(items))]


@method('dict', 'update')
def dict_m_update(ex, st, selfv, args, kwargs, node):
    if selfv.items is None or not isinstance(args[0], VDict) or args[0].items is None:
        raise Unsupported('dict.update on symbolic dicts')
    items = dict(selfv.items)
    items.update(args[0].items)
    return [(s, NONE) for s in writeback(ex, st, node, VDict(items))]


@method('str', 'split')
def str_m_split(ex, st, selfv, args, kwargs, node):
    """s.split(sep[, maxsplit]) for a constant, non-empty separator: a list of symbolic length n >= 1 whose first two
    pieces are exact (text before the first separator; text up to the second one, or - with maxsplit == 1 - all the rest),
    with n == 1 <=> the separator does not occur, n >= 3 <=> it occurs again in the rest (n <= maxsplit + 1);
    later pieces are uninterpreted strings."""
    if not args or not isinstance(args[0], VStr) or args[0].conc() in (None, ''):
        raise Unsupported('str.split without a constant separator')
    sep = args[0]
    maxsplit = None
    if len(args) > 1:
        maxsplit = args[1].conc() if isinstance(args[1], VInt) else None
        if maxsplit is None or maxsplit < 1:
            raise Unsupported('str.split with symbolic / non-positive maxsplit')
    if st.spec:
        raise Unsupported('str.split in a specification')
    t, sp = selfv.t, sep.t
    ls = z3.IntVal(len(sep.conc()))
    has = z3.Contains(t, sp)
    i0 = z3.IndexOf(t, sp, z3.IntVal(0))
    p0 = z3.If(has, z3.SubString(t, z3.IntVal(0), i0), t)
    rest = z3.SubString(t, i0 + ls, z3.Length(t) - i0 - ls)
    has2 = z3.Contains(rest, sp)
    if maxsplit == 1:
        p1 = rest
    else:
        p1 = z3.If(has2, z3.SubString(rest, z3.IntVal(0), z3.IndexOf(rest, sp, z3.IntVal(0))), rest)
    n = z3.Int(uid('split.len'))
    st.assume(n >= 1)
    st.assume((n == 1) == z3.Not(has))
    if maxsplit == 1:
        st.assume(n <= 2)
    else:
        st.assume((n >= 3) == z3.And(has, has2))
        if maxsplit is not None:
            st.assume(n <= maxsplit + 1)
    piece = z3.Function('str_split_piece', z3.StringSort(), z3.StringSort(), z3.IntSort(), z3.StringSort())
    ex.used_stubs.add('str.split(const): first two pieces exact, later pieces uninterpreted')
    return [(st, VSeq(length=n, kind='list',
                      elem=lambda i: VStr(z3.If(i == 0, p0, z3.If(i == 1, p1, piece(t, sp, i))), isbytes=selfv.isbytes)))]


@method('str', 'lower')
def str_m_lower(ex, st, selfv, args, kwargs, node):
    from . import strings
    ex.used_stubs.add('str.lower()/upper(): uninterpreted function (constant-folded on literals)')
    return [(st, strings.lower_of(selfv))]


@method('str', 'upper')
def str_m_upper(ex, st, selfv, args, kwargs, node):
    from . import strings
    ex.used_stubs.add('str.lower()/upper(): uninterpreted function (constant-folded on literals)')
    return [(st, strings.upper_of(selfv))]


@builtin('str_lower')
def b_str_lower(ex, st, args, kwargs, node):
    from . import strings
    return [(st, strings.lower_of(args[0]))]


@method('str', 'join')
def str_m_join(ex, st, selfv, args, kwargs, node):
    outs = as_seq(ex, st, args[0])
    res = []
    for s2, sq in outs:
        if isinstance(sq, Raised):
            res.append((s2, sq))
            continue
        if not sq.concrete and getattr(sq, 'rep_of', None) is not None and isinstance(sq.rep_of[0], VStr):
            # sep.join([item] * n): a function of separator, item and count (uninterpreted; enough to compare counts)
            f = z3.Function('str_join_rep', z3.StringSort(), z3.StringSort(), z3.IntSort(), z3.StringSort())
            res.append((s2, VStr(f(selfv.t, sq.rep_of[0].t, sq.rep_of[1]), isbytes=selfv.isbytes)))
            continue
        if not sq.concrete:
            if st.spec:
                raise Unsupported('str.join over a sequence of symbolic length')
            ex.used_stubs.add('sep.join(list of unknown length): an unknown string')
            res.append((s2, VStr(z3.String(uid('joined')), isbytes=selfv.isbytes)))
            continue
        t = None
        for k, x in enumerate(sq.items):
            if not isinstance(x, VStr):
                raise Unsupported('str.join of non-strings')
            t = x.t if t is None else z3.Concat(t, selfv.t, x.t) if not (z3.is_string_value(selfv.t) and selfv.t.as_string() == '') else z3.Concat(t, x.t)
        res.append((s2, VStr(t if t is not None else z3.StringVal(''), isbytes=selfv.isbytes)))
    return res


@method('str', 'format')
def str_m_format(ex, st, selfv, args, kwargs, node):
    ex.used_stubs.add('str.format(...): an unknown string (used for SQL / log text only)')
    return [(st, VStr(z3.String(uid('formatted'))))]


@method('str', 'encode')
def str_m_encode(ex, st, selfv, args, kwargs, node):
    ex.used_stubs.add('str.encode()/bytes.decode(): identity on the abstract character sequence (no UnicodeError modelled)')
    return [(st, VStr(selfv.t, isbytes=True))]


@method('str', 'decode')
def str_m_decode(ex, st, selfv, args, kwargs, node):
    return [(st, VStr(selfv.t, isbytes=False))]


@method('str', 'startswith')
def str_m_startswith(ex, st, selfv, args, kwargs, node):
    return [(st, VBool(z3.PrefixOf(args[0].t, selfv.t)))]


@method('str', 'endswith')
def str_m_endswith(ex, st, selfv, args, kwargs, node):
    return [(st, VBool(z3.SuffixOf(args[0].t, selfv.t)))]


# ---------------------------------------------------------------------------------------------------------
# stub object plumbing
def stub_truth(ex, st, v):
    h = STUB_CLASSES[v.cls].get('__bool__')
    if h is None:
        return z3.BoolVal(True)
    return h(ex, st, v)


def stub_eq(ex, st, a, b):
    if isinstance(a, VObj) and isinstance(b, VObj):
        if a.ref == b.ref:
            return z3.BoolVal(True)
        h = STUB_CLASSES.get(a.cls, {}).get('__eq__')
        if h:
            return h(ex, st, a, b)
        return z3.BoolVal(False)
    if isinstance(a, VNone) or isinstance(b, VNone):
        return z3.BoolVal(False)
    o, x = (a, b) if isinstance(a, VObj) else (b, a)
    h = STUB_CLASSES.get(o.cls, {}).get('__eq__')
    if h:
        return h(ex, st, o, x)
    return z3.BoolVal(False)


def stub_havoc(ex, st, obj, field):
    h = STUB_CLASSES[obj.cls].get('$havoc')
    if h is None:
        raise Unsupported('havoc of %s' % obj.cls)
    h(ex, st, obj, field)


def stub_setattr(ex, st, obj, attr, v):
    st.heap[obj.ref][attr] = v
    return [(st, None)]


def with_enter(ex, st, cm, node):
    if isinstance(cm, VObj) and cm.cls.startswith('$'):
        h = STUB_CLASSES[cm.cls].get('__enter__')
        if h is None:
            raise Unsupported('with on %s' % cm.cls)
        return h(ex, st, cm)
    if isinstance(cm, VOpaque):
        # opaque context manager (a lock, a session ...): ghost `held` = tuple of the managers currently entered
        from .engine import Event
        st.ghost['held'] = tuple(st.ghost.get('held', ())) + (cm,)
        st.trace.append(Event('__enter__', [cm], {}, None, dict(st.ghost), getattr(node, 'lineno', 0), recv=cm))
        return [(st, VOpaque(name='entered'))]
    if isinstance(cm, VObj):
        ci = ex.class_info(cm.cls)
        fi = ex.db.find_method(ci, '__enter__') if ci else None
        if fi is not None:
            return ex.call_function(st, fi, [cm], {}, node)
    raise Unsupported('with on %r' % (cm,))


def with_exit(ex, st, cm, kind, val):
    if isinstance(cm, VObj) and cm.cls.startswith('$'):
        h = STUB_CLASSES[cm.cls].get('__exit__')
        return h(ex, st, cm, kind, val)
    if isinstance(cm, VOpaque):
        from .engine import Event
        held = list(st.ghost.get('held', ()))
        for k in range(len(held) - 1, -1, -1):
            if held[k] is cm:
                del held[k]
                break
        st.ghost['held'] = tuple(held)
        st.trace.append(Event('__exit__', [cm], {}, None, dict(st.ghost), 0, recv=cm))
        return [(st, None)]
    if isinstance(cm, VObj):
        ci = ex.class_info(cm.cls)
        fi = ex.db.find_method(ci, '__exit__') if ci else None
        if fi is not None:
            outs = ex.call_function(st, fi, [cm, NONE, NONE, NONE], {}, None)
            return [(s, v if isinstance(v, Raised) else None) for s, v in outs]
    raise Unsupported('with-exit on %r' % (cm,))


# ---------------------------------------------------------------------------------------------------------
# gridlist[T]  — model of mapproxy.util.collections.ImmutableDictList / grid.NamedGridList
#   fields: values: VSeq, names: VSeq[str] ; name lookup through an uninterpreted index function
def _gridlist_fresh(ex, st, ty, name, idx):
    if idx:
        raise Unsupported('sequence of gridlists')
    obj = ex.new_ref(st, '$gridlist')
    vals = ex.fresh(st, Ty('seq', [ty.args[0]]), name)
    names = ex.fresh(st, Ty('seq', [Ty('str')]), name + '.names')
    st.assume(names.length() == vals.length())
    st.heap[obj.ref]['values'] = vals
    st.heap[obj.ref]['names'] = names
    idxf = z3.Function(uid(name + '.idx'), z3.StringSort(), z3.IntSort())
    st.heap[obj.ref]['$idx'] = idxf
    qi = z3.Int(uid('qi'))
    st.assume(z3.ForAll([qi], z3.Implies(z3.And(0 <= qi, qi < vals.length()), idxf(names.elem(qi).t) == qi)))
    ex.used_stubs.add('gridlist: model of util.collections.ImmutableDictList (names are distinct keys)')
    return obj


STUB_TYPES['gridlist'] = _gridlist_fresh


def _dict_fresh(ex, st, ty, name, idx):
    ksort = z3.StringSort() if ty.args[0].kind == 'str' else z3.IntSort()
    return new_symdict(ex, st, name, ty.args[1], ksort, idx)


STUB_TYPES['dict'] = _dict_fresh


def _gl(st, v):
    f = st.heap[v.ref]
    return f['values'], f['names'], f['$idx']


def gridlist_name_index(st, v, s):
    """(index term, present condition) for name s; adds the defining facts of the index function"""
    vals, names, idxf = _gl(st, v)
    i = idxf(s)
    present = z3.And(0 <= i, i < vals.length(), names.elem(i).t == s)
    return i, present


def _gl_getitem(ex, st, v, idx, node=None):
    vals, names, idxf = _gl(st, v)
    if isinstance(idx, VStr):
        i, present = gridlist_name_index(st, v, idx.t)
        if st.spec:
            return [(st, vals.elem(i))]
        res = []
        for s2, b in ex.branch(st, present):
            res.append((s2, vals.elem(i) if b else Raised('KeyError', note='gridlist name')))
        return res
    if isinstance(idx, (VInt, VBool)):
        i, ok = norm_index(st, vals, to_int(idx))
        if st.spec:
            return [(st, vals.elem(z3.simplify(i)))]
        res = []
        for s2, b in ex.branch(st, ok):
            res.append((s2, vals.elem(z3.simplify(i)) if b else Raised('IndexError', note='gridlist index')))
        return res
    if isinstance(idx, VOpt):
        res = []
        for s2, fv in ex.force(st, idx):
            res.extend(_gl_getitem(ex, s2, v, fv, node))
        return res
    if isinstance(idx, VNone):
        return [(st, Raised('TypeError', note='list indices must be integers, not NoneType'))]
    raise Unsupported('gridlist index %r' % (idx,))


def _gl_contains(ex, st, v, item):
    vals, names, idxf = _gl(st, v)
    if isinstance(item, VStr):
        i, present = gridlist_name_index(st, v, item.t)
        return [(st, present)]
    if isinstance(item, (VInt, VBool)):
        # ImmutableDictList.__contains__: self[name] without KeyError; an int out of range raises IndexError
        i, ok = norm_index(st, vals, to_int(item))
        if st.spec:
            return [(st, ok)]
        res = []
        for s2, b in ex.branch(st, ok):
            res.append((s2, z3.BoolVal(True) if b else Raised('IndexError', note='gridlist __contains__(int)')))
        return res
    raise Unsupported('gridlist contains %r' % (item,))


STUB_CLASSES['$gridlist'] = {
    '__getitem__': _gl_getitem,
    '__contains__': _gl_contains,
    '__len__': lambda ex, st, v: [(st, VInt(_gl(st, v)[0].length()))],
    '__iter__': lambda ex, st, v: [(st, _gl(st, v)[0])],
    '__bool__': lambda ex, st, v: _gl(st, v)[0].length() > 0,
    'iteritems': lambda ex, st, v, args, kwargs, node: [(st, VSeq(
        length=_gl(st, v)[0].length(),
        elem=lambda i, v=v, st=st: VSeq([_gl(st, v)[1].elem(i), _gl(st, v)[0].elem(i)], kind='tuple'), kind='list'))],
}


def gridlist_ctor(ex, st, args, kwargs, node):
    """NamedGridList(items): items are (name, value) pairs or plain values (then names are '%02d' % i)"""
    items = args[0]
    outs = as_seq(ex, st, items)
    res = []
    for s2, sq in outs:
        if isinstance(sq, Raised):
            res.append((s2, sq))
            continue
        probe = sq.elem(z3.IntVal(0)) if (not sq.concrete or sq.items) else None
        obj = ex.new_ref(s2, '$gridlist')
        if probe is not None and isinstance(probe, VSeq) and probe.concrete and len(probe.items) == 2 and \
                isinstance(probe.items[0], VStr):
            vals = VSeq(length=sq.length(), elem=lambda i, sq=sq: sq.elem(i).items[1], kind='list')
            names = VSeq(length=sq.length(), elem=lambda i, sq=sq: sq.elem(i).items[0], kind='list')
        else:
            from . import strings
            vals = sq
            names = VSeq(length=sq.length(), elem=lambda i: VStr(strings.fmt_0d(2, i)), kind='list')
        s2.heap[obj.ref]['values'] = vals
        s2.heap[obj.ref]['names'] = names
        s2.heap[obj.ref]['$idx'] = z3.Function(uid('gl.idx'), z3.StringSort(), z3.IntSort())
        ex.used_stubs.add('gridlist: model of util.collections.ImmutableDictList (names are distinct keys)')
        res.append((s2, obj))
    return res


CTOR_STUBS = {'mapproxy.grid:NamedGridList': gridlist_ctor, 'mapproxy.util.collections:ImmutableDictList': gridlist_ctor}


@extern('itertools.zip_longest')
def it_zip_longest(ex, st, args, kwargs, node):
    """zip_longest(a, b, fillvalue=None): length max(len a, len b), exhausted sides give the fill value (None)"""
    fill = kwargs.get('fillvalue', NONE)
    if not isinstance(fill, VNone):
        raise Unsupported('zip_longest with a non-None fillvalue')
    seqs = []
    for a in args:
        o = as_seq(ex, st, a)
        if len(o) != 1 or isinstance(o[0][1], Raised):
            raise Unsupported('zip_longest over forking iterables')
        seqs.append(o[0][1])
    n = seqs[0].length()
    for s_ in seqs[1:]:
        n = z3.If(s_.length() > n, s_.length(), n)
    return [(st, VSeq(length=n, kind='list',
                      elem=lambda i: VSeq([VOpt(i >= s_.length(), s_.elem(i)) for s_ in seqs], kind='tuple')))]


def _mentions_bound(t, bound):
    ids = set()
    for b in bound:
        bt = getattr(b, 't', None)
        if bt is not None and hasattr(bt, 'get_id'):
            ids.add(bt.get_id())
    stack, seen = [t], set()
    while stack:
        x = stack.pop()
        if x.get_id() in seen:
            continue
        seen.add(x.get_id())
        if x.get_id() in ids or z3.is_var(x):
            return True
        stack.extend(x.children())
    return False


# ---- os.path (string level; POSIX separators) ---------------------------------------------------------------------
@extern('os.path.join')
def os_path_join(ex, st, args, kwargs, node):
    """posixpath.join: a component starting with '/' discards what precedes it; otherwise it is appended, with a '/'
    in between unless the path so far is empty or already ends in '/' (so an empty component only adds the '/')."""
    if any(isinstance(a, VOpaque) for a in args):
        return [(st, VOpaque(name='path'))]
    if not all(isinstance(a, VStr) for a in args):
        raise Unsupported('os.path.join of non-strings')
    sl = z3.StringVal('/')

    def is_number_image(t):
        # A-fmt: the images of '%d', '%0Kd', '%0Kx' are non-empty and contain no '/'
        return z3.is_app(t) and t.decl().kind() == z3.Z3_OP_UNINTERPRETED and t.decl().name() in ('fmt_d', 'fmt_0d', 'fmt_0x')

    def first_char_known(t):
        """-> True/False if the term certainly starts / does not start with '/', None if unknown"""
        while z3.is_app(t) and t.decl().kind() == z3.Z3_OP_SEQ_CONCAT:
            t = t.arg(0)
        if z3.is_string_value(t) and t.as_string() != '':
            return t.as_string().startswith('/')
        if is_number_image(t):
            return False
        return None

    def last_char_known(t):
        while z3.is_app(t) and t.decl().kind() == z3.Z3_OP_SEQ_CONCAT:
            t = t.arg(t.num_args() - 1)
        if z3.is_string_value(t) and t.as_string() != '':
            return t.as_string().endswith('/')
        if is_number_image(t):
            return False
        return None
    def decide(cond):
        """-> True / False if the path condition settles cond, else None"""
        if getattr(st, 'bound', ()):
            return None
        for c_, verdict in ((cond, False), (z3.Not(cond), True)):
            sv = z3.Solver()
            sv.set('rlimit', 300000)        # a resource (not wall-clock) bound: the same decision under any load
            sv.add(*st.pc)
            sv.add(c_)
            if sv.check() == z3.unsat:
                return verdict
        return None
    t = args[0].t
    for a in args[1:]:
        b = a.t
        absb = first_char_known(b)
        if absb is None:
            absb = decide(z3.PrefixOf(sl, b))
        ends = last_char_known(t)
        if ends is None and absb is not True:
            ends = decide(z3.Or(t == z3.StringVal(''), z3.SuffixOf(sl, t)))
        if ends is True:
            appended = z3.Concat(t, b)
        elif ends is False:
            appended = z3.Concat(t, sl, b)
        else:
            # the separator decision is kept inside the common prefix, so that two names built on the same directory
            # share a syntactically identical prefix term
            cond_ = z3.Or(t == z3.StringVal(''), z3.SuffixOf(sl, t))
            if getattr(st, 'bound', ()) and _mentions_bound(t, [st.env.get(n_) for n_ in st.bound]):
                pfx = z3.If(cond_, t, z3.Concat(t, sl))
            else:
                # the directory-with-separator prefix gets a NAME (one constant per directory term, defined by an
                # equation in the path condition): names built on the same directory visibly share their prefix
                cache = ex.__dict__.setdefault('join_prefix_cache', {})
                if t.get_id() not in cache:
                    cache[t.get_id()] = (z3.String(uid('dirsep')), t)
                pfx = cache[t.get_id()][0]
                st.assume(pfx == z3.If(cond_, t, z3.Concat(t, sl)))
            appended = z3.Concat(pfx, b)
        if absb is True:
            t = b
        elif absb is False:
            t = appended
        else:
            t = z3.If(z3.PrefixOf(sl, b), b, appended)
    ex.used_stubs.add("os.path.join: posixpath semantics (absolute component restarts, '/' inserted unless the prefix is empty or ends in '/')")
    return [(st, VStr(t))]


@extern('os.path.dirname')
def os_path_dirname(ex, st, args, kwargs, node):
    f = z3.Function('path_dirname', z3.StringSort(), z3.StringSort())
    if isinstance(args[0], VOpaque):
        return [(st, VOpaque(name='dirname'))]
    return [(st, VStr(f(args[0].t)))]


BUILTINS['pjoin'] = os_path_join      # spec dialect: os.path.join
from . import filemodel as _filemodel  # noqa
import sys as _sys  # noqa
_filemodel.install(_sys.modules[__name__])
