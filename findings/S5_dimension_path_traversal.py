"""Witness of defect S5 (C09): WMS dimension parameters (TIME / ELEVATION / DIM_*) are used unsanitised as directory names
of a file cache: TIME=../../../escaped stores the tile outside the cache directory.
exit 1 = reproduces, exit 0 = does not."""
import os, sys, tempfile, shutil, io
from mapproxy.config.loader import load_configuration
from mapproxy.wsgiapp import MapProxyApp
from webtest import TestApp
import mapproxy.client.http as http
from mapproxy.compat.image import Image

tmp = tempfile.mkdtemp()
root = os.path.join(tmp, 'a', 'b', 'cache_data')
conf = """
services:
  wms:
    md: {title: t}
layers:
  - name: l
    title: l
    sources: [c]
caches:
  c:
    grids: [GLOBAL_MERCATOR]
    sources: [s]
    cache: {type: file, directory: %s}
sources:
  s:
    type: wms
    req: {url: http://localhost:1/s, layers: a}
""" % root
open(tmp + '/m.yaml', 'w').write(conf)


class Resp(object):
    def __init__(self):
        b = io.BytesIO()
        Image.new('RGB', (256, 256), (0, 160, 0)).save(b, 'png')
        self.data, self.headers, self.code = b.getvalue(), {'Content-type': 'image/png'}, 200

    def read(self):
        return self.data


http.HTTPClient.open = lambda self, url, data=None, method=None: Resp()
cfg = load_configuration(tmp + '/m.yaml')
app = TestApp(MapProxyApp(cfg.configured_services(), cfg.base_config))
app.get('/service?SERVICE=WMS&VERSION=1.1.1&REQUEST=GetMap&LAYERS=l&STYLES=&SRS=EPSG:3857&BBOX=-20037508,-20037508,20037508,20037508'
        '&WIDTH=256&HEIGHT=256&FORMAT=image/png&TIME=../../../escaped&DIM_/../../../escaped2=x', expect_errors=True)
outside = []
for dp, dn, fn in os.walk(tmp):
    for f in fn:
        p = os.path.join(dp, f)
        if p.endswith('.png') and not os.path.realpath(p).startswith(os.path.realpath(root) + os.sep):
            outside.append(os.path.relpath(p, tmp))
print('tile files written outside the cache directory:', outside[:3])
shutil.rmtree(tmp)
sys.exit(1 if outside else 0)
