"""C09 - serving never touches files outside the cache and lock directories.
Deductive part: every integer-formatted path component is a safe segment (A-fmt), bundle and lock names stay under their
root.  The dimension sub-path (request-supplied strings pushed through split/join) is beyond both string solvers: it is
covered by a BOUNDED check on the real functions with hostile inputs (labelled bounded, never counted as proved)."""
import os
from pyvc.api import contract, cls, ghost, lemma
from . import shared_grid, c05_compact, c16_limits  # noqa
from .c05_paths import HOSTILE, HOSTILE_KEYS, hostile_value

def _gen_dims(gen, rng):
    n = rng.randint(0, 3)
    d = {}
    for _ in range(n):
        d[hostile_value(rng, HOSTILE_KEYS)] = hostile_value(rng)
    return {'dimensions': {'$pydict': d} if d or rng.random() < 0.8 else None}


def _under_root(root, rel):
    p = os.path.normpath(os.path.join(root, rel, 'leaf'))
    return p.startswith(os.path.normpath(root) + os.sep)


def _dims_stay_below(args, result):
    """dimensions_part(dimensions) joined below a root never leaves the root (no '..' / absolute segment survives)"""
    # (no leading or trailing '/': what the level-directory contract in c05_paths assumes about the dimension sub-path)
    return _under_root('/r/cache', result) and _under_root('C:/r', result.replace('\\', '/')) and not os.path.isabs(result) \
        and not result.startswith('/') and not result.endswith('/')


contract('mapproxy.cache.path:dimensions_part', props=['C09'], verify=False,
         types=dict(dimensions='opaque'), returns='str',
         ensures=[_dims_stay_below], fuzz_gen=_gen_dims, bounded=dict(n=4000, seconds=10))


from .c05_paths import _gen_tile_loc, _loc_below_cache_dir  # noqa  (the tile_location_* contracts live in c05_paths: formula proved, containment bounded)

# ---- deductive: bundle and lock file names ----------------------------------------------------------------------------------
lemma('bundle_name_below_cache_dir', ['C09'],
      doc="cache_dir + '/L' + l + '/R' + a + 'C' + b with number images free of '/', '.', '\\\\': exactly two more segments "
          "below cache_dir, neither of them '.' or '..'",
      fn=lambda z3: (lambda d, l, a, b, seg1, seg2: (
          [seg1 == z3.Concat(z3.StringVal('L'), l), seg2 == z3.Concat(z3.StringVal('R'), a, z3.StringVal('C'), b)] +
          [z3.Not(z3.Contains(x, z3.StringVal(ch))) for x in (l, a, b) for ch in ('/', '.', '\\\\')],
          z3.And(z3.Not(z3.Contains(seg1, z3.StringVal('/'))), z3.Not(z3.Contains(seg2, z3.StringVal('/'))),
                 seg1 != z3.StringVal('..'), seg1 != z3.StringVal('.'), seg2 != z3.StringVal('..'), seg2 != z3.StringVal('.'),
                 z3.Length(seg1) > 0, z3.Length(seg2) > 0)))(*z3.Strings('d l a b seg1 seg2')))

cls('mapproxy.cache.base:TileLocker', fields=dict(lock_dir='str', lock_timeout='opaque', lock_cache_id='str',
                                                  directory_permissions='opaque', file_permissions='opaque'))
contract('mapproxy.cache.base:TileLocker.lock_filename', props=['C09', 'C08'],
         types=dict(tile='opaque'), returns='str',
         opaque_fields={'coord': 'tuple[int,int,int]'}, stable_fields=['coord'],
         ensures=[
             # one file directly below lock_dir, named by the cache id and the three coordinates, separated by '-'
             """result == pjoin(self.lock_dir, self.lock_cache_id + '-' + fmtd(tile.coord[0]) + '-' + fmtd(tile.coord[1])
                                + '-' + fmtd(tile.coord[2]) + '.lck')"""],
         must_fail="result == self.lock_dir")
lemma('lock_name_injective', ['C08', 'C09'],
      doc="id-x-y-z.lck: with non-negative coordinates (no '-' inside the number images) different tiles get different lock files",
      fn=lambda z3: (lambda p, x, y, zz, x2, y2, z2: (
          [z3.Concat(p, z3.StringVal('-'), x, z3.StringVal('-'), y, z3.StringVal('-'), zz, z3.StringVal('.lck')) ==
           z3.Concat(p, z3.StringVal('-'), x2, z3.StringVal('-'), y2, z3.StringVal('-'), z2, z3.StringVal('.lck'))] +
          [z3.Not(z3.Contains(v, z3.StringVal(ch))) for v in (x, y, zz, x2, y2, z2) for ch in ('-', '.')],
          z3.And(x == x2, y == y2, zz == z2)))(*z3.Strings('p x y zz x2 y2 z2')))


# ---- sqlite level caches: the database file of a level is <cache_dir>/<level>.<ext>, one safe segment below the cache dir --------
def _level_db_name(ext, ctor):
    def clause(ex, st, post, result):
        import z3
        from pyvc.values import eq, VStr
        from pyvc import tracelib as T
        mk = [e for i, e in T.evs(st, ctor)]
        goal = z3.BoolVal(len(mk) <= 1)
        for e in mk:
            h = st.heap[post.env['self'].ref]
            sp = st.fork()
            sp.spec = True
            sp.env = {'d': h['cache_dir'], 'level': post.env['level']}
            want = ex.ev1(sp, ex.reg.parse_spec("pjoin(d, fmtd(level) + '.%s')" % ext))
            goal = z3.And(goal, eq(e.args[0], want))
        yield ('level_database_below_cache_dir', goal,
               "the database opened for a level is pjoin(cache_dir, str(level) + '.%s'): one path segment made of a number image "
               "(A-fmt: no '/', no '..') below the cache directory" % ext)
    return clause


def _timestamp_claim(ctor):
    def clause(ex, st, post, result):
        """C12/C13: the clean-up and refresh code trusts cache.supports_timestamp"""
        import z3
        made = [e for i, e in T.evs(st, ctor)]
        if not made:
            return
        sp = st.fork()
        sp.spec = True
        sp.env = {'self': post.env['self']}
        claim = ex.truth(sp, ex.ev1(sp, ex.reg.parse_spec('self.supports_timestamp')))
        kw = made[0].kwargs.get('with_timestamps')
        yield ('timestamp_support_is_what_the_level_databases_have',
               claim == ex.truth(st, kw) if kw is not None else z3.Not(claim),
               'the level cache claims supports_timestamp exactly when it creates its level databases with time stamps (a cache that '
               'claims them but reports -1 for every tile makes remove_before / refresh_before treat every tile as expired)')
    return clause


for _mod, _cls_, _ext, _ctor, _dictf in (('mapproxy.cache.mbtiles:', 'MBTilesLevelCache', 'mbtile', 'MBTilesCache', '_mbtiles'),
                                          ('mapproxy.cache.geopackage:', 'GeopackageLevelCache', 'gpkg', 'GeopackageCache', '_geopackage')):
    cls(_mod + _cls_, fields={'cache_dir': 'str', _dictf: 'opaque', '_%s_lock' % _dictf.strip('_'): 'opaque', 'timeout': 'opaque',
                              'wal': 'opaque', 'ttl': 'opaque', 'coverage': 'opaque', 'directory_permissions': 'opaque',
                              'file_permissions': 'opaque', 'file_premissions': 'opaque', 'tile_grid': 'opaque', 'table_name': 'opaque'})
    contract(_mod + _cls_ + '._get_level', props=['C09', 'C12'],
             types=dict(level='int'), returns='opaque', default_callee='opaque',
             opaque_spec={_ctor: {'pure': True}}, opaque=[_ctor],
             requires=['level >= 0'],
             trace=[_level_db_name(_ext, _ctor), _timestamp_claim(_ctor)])


# ---- the id in the lock file names is a pure function of the cache location: every process that serves this cache computes the SAME --
def _lock_id_is_md5_of_location(ex, st, post, result):
    import z3
    cd = post.env['cache_dir']
    h = st.heap[post.env['self'].ref]
    lid = h['lock_cache_id']
    t = getattr(lid, 't', None)
    ok = False
    if t is not None:
        subs = list(_subterms(t))
        digests = [x for x in subs if z3.is_app(x) and x.decl().name() == 'md5hex']
        # the only symbolic input anywhere in the id is the cache location, and it goes through the md5 digest
        free = [x for x in subs if z3.is_const(x) and x.decl().kind() == z3.Z3_OP_UNINTERPRETED]
        ok = len(digests) == 1 and all(x.eq(cd.t) for x in free) and any(x.eq(cd.t) for x in _subterms(digests[0])) \
            and (t.eq(digests[0]) or (z3.is_app(t) and t.decl().kind() == z3.Z3_OP_SEQ_CONCAT and t.num_args() == 2
                                      and z3.is_string_value(t.arg(0)) and t.arg(1).eq(digests[0])))
    ok = ok and not [e for e in st.trace if e.name in ('hash', 'getpid', 'time', 'random', 'randint', 'uuid4', 'id')]
    yield ('lock_id_is_digest_of_cache_location', z3.BoolVal(bool(ok)),
           "lock_cache_id = [constant prefix +] md5(cache location as UTF-8).hexdigest(): a function of the configured location only - "
           'not of the interpreter (hash() is randomised per process), the process id or the time - so independently started processes '
           'that share a cache contend for the same lock files')


def _subterms(t):
    import z3
    yield t
    if z3.is_app(t):
        for c in t.children():
            for x in _subterms(c):
                yield x


from pyvc import tracelib as T  # noqa
for _key, _extra in (('mapproxy.cache.file:FileCache.__init__', dict(file_ext='str', directory_layout='opaque', link_single_color_images='opaque',
                                                                     coverage='opaque', image_opts='opaque', directory_permissions='opaque',
                                                                     file_permissions='opaque')),
                     ('mapproxy.cache.compact:CompactCacheBase.__init__', dict(coverage='opaque', directory_permissions='opaque',
                                                                               file_permissions='opaque'))):
    contract(_key, props=['C08', 'C09'],
             types=dict(_extra, cache_dir='str'), returns='none', default_callee='opaque',
             opaque_spec={'new': {'pure': True}, 'hexdigest': {'returns': 'str', 'pure': True}, 'encode': {'pure': True}, '__init__': {'pure': True},
                          'location_funcs': {'returns': 'tuple[opaque,opt[opaque]]', 'pure': True}, 'super': {'pure': True}},
             opaque=['location_funcs', '__init__'],
             trace=[_lock_id_is_md5_of_location])
