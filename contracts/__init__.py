"""Sidecar contracts for mapproxy.  PROP_MODULES: which contract modules carry obligations of which property."""

PROP_MODULES = {
    'C03': ['contracts.builders', 'contracts.shared_grid', 'contracts.c03_grid'],
}

# semantics assumed by the encoding (DESIGN.md section 2.4), reported in every evidence file
ASSUMPTIONS = [
    'A-int: Python int operations are mathematical integers (exact); // and % follow Python floor semantics',
    'A-real: every float is a real number; + - * / exact; floor/ceil/int() mathematical; round(x,n)=x+e, |e|<=0.5*10^-n. '
    'Nothing is claimed about IEEE-754 rounding.',
    'A-alias: distinct parameters denote distinct objects; lists/dicts are not aliased between two live names; '
    'no other thread mutates the objects during the call',
    'A-gen-eager: generator bodies are executed eagerly at the call (no interleaving with the consumer)',
    'pyvc itself (AST -> SMT encoding of the Python subset) is trusted; cross-checked by replaying counter-models '
    'and by the mutation self-test',
    'log.*(...) / print(...) calls and docstrings are dropped (assumed effect-free)',
]
PROP_ASSUMPTIONS = {}
NOT_COVERED = {}
