"""C10 - authorization is enforced: denied layers stay dark, limited areas are clipped (decision logic and call-site
conditions; pixel clipping itself is outside)."""
from pyvc.api import contract, cls, ghost, lemma
from pyvc import tracelib as T
from . import shared_grid, c03_grid, c16_limits, c20_conditional  # noqa
S = 'mapproxy.service.tile:'


# ---- tile services: authorize_tile_layer -----------------------------------------------------------------------------
def _tile_auth_decision(ex, st, post, result):
    """normal return => no callback configured, or 'full', or ('partial' and the layer's tile permission is True);
    everything else raises 401/403"""
    import z3
    from pyvc.values import opaque_eq_str, opaque_is_true, VOpaque
    calls = [e for i, e in T.evs(st, "request.http.environ['mapproxy.authorize']", 'call') if True]
    cb = [e for e in st.trace if e.kwargs and 'query_extent' in e.kwargs and 'environ' in e.kwargs]
    if not cb:
        # no callback consulted: only allowed when the environ has no authorize entry
        ins = [e for i, e in T.evs(st, 'contains')]
        yield ('no_callback_means_not_configured', z3.And([z3.Not(e.result.t) for e in ins]) if ins else z3.BoolVal(False),
               "the layer is only served without asking when no 'mapproxy.authorize' callback is configured")
        return
    res = cb[-1].result
    # all reads result['authorized'] on this path (epochs differ; any of them may justify the decision)
    gets = [e for i, e in T.evs(st, 'get') if e.args and getattr(e.args[0], 'conc', lambda: None)() in ('tile', 'featureinfo')]
    auth_terms = ex.__dict__.get('_auth_reads', None)
    full = z3.BoolVal(False)
    partial = z3.BoolVal(False)
    for t in getattr(st, 'item_reads', []):
        pass
    # reconstruct the reads: item 'authorized' of the callback result, at every epoch seen on the path
    from pyvc.builtins import concrete_key
    import builtins as _b
    ck = ('s', 'authorized')
    for ep in range(0, st.epoch + 1):
        f = z3.Function('opaque_item_%s_%d' % (abs(hash(ck)), ep), res.t.sort(), res.t.sort())
        full = z3.Or(full, opaque_eq_str(f(res.t), z3.StringVal('full')))
        partial = z3.Or(partial, opaque_eq_str(f(res.t), z3.StringVal('partial')))
    tile_true = z3.Or([opaque_is_true(e.result.t) for e in gets if isinstance(e.result, VOpaque)]) if gets else z3.BoolVal(False)
    yield ('served_only_if_authorized', z3.Or(full, z3.And(partial, tile_true)),
           "normal return => authorized == 'full', or 'partial' with the layer's tile permission True")
    yield ('full_means_unlimited', z3.BoolVal(True), '')


AUTH_SPEC = {'get': {'pure': True}, 'load_limited_to': {'pure': True}, 'tile_bbox': {'pure': True}}
for key in ('mapproxy.service.tile:TileServer.authorize_tile_layer', 'mapproxy.service.wmts:WMTSServer.authorize_tile_layer',
            'mapproxy.service.kml:KMLServer.authorize_tile_layer'):
    contract(key, props=['C10'], types=dict(tile_layer='opaque', request='opaque', featureinfo='bool') if 'wmts' in key else dict(tile_layer='opaque', request='opaque'), returns='opaque',
             default_callee='opaque', opaque_spec=AUTH_SPEC, raises={'RequestError': True},
             stable_fields=['http', 'environ', 'tile', 'name', 'grid'],
             trace=[_tile_auth_decision])


# ---- TileLayer.render / get_info: outside the limit -> empty, crossing it -> masked with that coverage -------------------
def _render_limits(ex, st, post, result):
    import z3
    from pyvc.values import eq
    cov = post.env['coverage']
    loads = T.evs(st, 'load_tile_coord')
    conts = [e for i, e in T.evs(st, 'contains') if e.recv is not None and e.recv.t.eq(cov.val.t) and len(e.args) == 2]
    inters = [e for i, e in T.evs(st, 'intersects') if e.recv is not None and e.recv.t.eq(cov.val.t) and len(e.args) == 2]
    masks = T.evs(st, 'mask_image_source_from_coverage')
    bboxes = [e for i, e in T.evs(st, 'tile_bbox')]
    has_cov = ex.truth(st, cov)
    # the rectangle tested against the limit is the tile's FULL ground rectangle (grid.tile_bbox(tile_coord), no limit=)
    ok_bbox = all(len(b.args) == 1 and not b.kwargs for b in bboxes)
    goal = z3.BoolVal(ok_bbox)
    if loads:
        # the cache / upstream is only touched if there is no limit, or the limit contains or intersects the tile
        inside = z3.Or([ex.truth(st, e.result) for e in conts + inters]) if (conts or inters) else z3.BoolVal(False)
        goal = z3.And(goal, z3.Or(z3.Not(has_cov), inside))
        for e in conts + inters:
            goal = z3.And(goal, z3.BoolVal(bool(bboxes) and e.args[0] is bboxes[0].result))
    yield ('outside_limit_not_rendered', goal,
           'coverage given and neither contains nor intersects the full tile rectangle => empty response, no tile-manager access')
    # crossing the border: a response built from a tile exists only after masking with THIS coverage and THIS bbox
    resp = T.evs(st, 'TileResponse')
    g2 = z3.BoolVal(True)
    if resp:
        crossing = z3.And(has_cov, z3.And([z3.Not(ex.truth(st, e.result)) for e in conts]) if conts else z3.BoolVal(True))
        masked_ok = z3.BoolVal(False)
        for i, m in masks:
            if len(m.args) >= 4 and bboxes and m.args[1] is bboxes[0].result:
                masked_ok = z3.Or(masked_ok, eq(m.args[3], cov.val))
        g2 = z3.Implies(crossing, masked_ok)
    yield ('crossing_limit_is_masked', g2,
           'coverage intersects but does not contain the tile => the image goes through mask_image_source_from_coverage '
           'with the tile rectangle and that coverage')


from .c16_limits import RENDER_SPEC, REQ_FIELDS  # noqa
for _fn, _arg in (('render', 'tile_request'), ('get_info', 'info_request')):
    contract(S + 'TileLayer.' + _fn, props=['C16', 'C10', 'C09'], merge=True,
             trace_extra=[_render_limits])
