"""C08 / C13 / C04 - per-thread protocol of tile creation: lock on the meta tile's main tile, re-check under the lock,
one upstream fetch per meta tile, store before release, stale fallback.  Trace conditions (DESIGN.md 2.7)."""
from pyvc.api import contract, cls, ghost, lemma
from pyvc import tracelib as T
from . import shared_grid, c03_grid, c04_meta  # noqa
C = 'mapproxy.cache.tile:'
G = 'mapproxy.grid:'

cls(C + 'TileCreator', fields=dict(cache='opaque', sources='opaque', grid='obj:mapproxy.grid:TileGrid', meta_grid='opaque',
                                   bulk_meta_tiles='bool', tile_mgr='opaque', dimensions='opaque', image_merger='opaque'))

# ---- MetaTile views -------------------------------------------------------------------------------------------
contract(G + 'MetaTile.tiles', props=['C04', 'C08'], types={}, returns='list[opt[tuple[int,int,int]]]',
         ensures=['len(result) == len(self.tile_patterns)',
                  'forall(lambda m: implies(0 <= m < len(result), result[m] == self.tile_patterns[m][0]))'],
         must_fail='len(result) == 0')

contract(G + 'MetaTile.main_tile_coord', props=['C04', 'C08'], types={}, returns='opt[tuple[int,int,int]]',
         inline=['tiles'],
         ensures=[
             # the first tile of the pattern that lies in the grid; None only if there is none
             """implies(result is not None, exists(lambda k: 0 <= k < len(self.tile_patterns)
                        and self.tile_patterns[k][0] is not None and self.tile_patterns[k][0] == result
                        and forall(lambda j: implies(0 <= j < k, self.tile_patterns[j][0] is None))))""",
             'implies(result is None, forall(lambda j: implies(0 <= j < len(self.tile_patterns), self.tile_patterns[j][0] is None)))'],
         loops={0: dict(inv=['forall(lambda j: implies(0 <= j < _k, self.tile_patterns[j][0] is None))'])},
         must_fail='result is None')

OPAQUE_FIELDS = {'cacheable': 'bool', 'coord': 'opt[tuple[int,int,int]]', 'authorize_stale': 'bool'}
OPAQUE_SPEC = {
    '_query_sources': {'returns': 'opt[opaque]', 'raises': ['SourceError']},
    'Tile': {'fields': {'coord': 'arg0'}, 'pure': True},
    'MapQuery': {'pure': True},
    'is_cached': {'returns': 'bool', 'pure': True},
    'is_stale': {'returns': 'bool', 'pure': True},
    'lock': {'pure': True},
    'tile_bbox': {'pure': True},
    'reraise_exception': {'always_raises': 'reraise'},
    'split_meta_tiles': {'returns': 'list[opaque]'},
    'apply_tile_filter': {'returns': 'opaque'},
}


def _lock_is_on_main_tile(ex, st, post, result):
    """the lock taken is the lock of the meta tile's main tile: lock(Tile(meta_tile.main_tile_coord))"""
    import z3
    from pyvc.values import eq
    goal = z3.BoolVal(True)
    n = 0
    mains = [e for e in st.trace if e.key == G + 'MetaTile.main_tile_coord' and e.args and e.args[0] is post.env['meta_tile']]
    for i, e in T.evs(st, 'lock'):
        n += 1
        coord = ex.opaque_field(st, e.args[0], 'coord')
        goal = z3.And(goal, z3.Or([eq(coord, m.result) for m in mains]) if mains else z3.BoolVal(False))
    yield ('lock_on_main_tile', z3.And(goal, z3.BoolVal(n >= 1)),
           'the lock is taken on Tile(meta_tile.main_tile_coord) (exactly the meta tile, see lemma main_tile_idempotent)')


def _fetch_result_stored_under_lock(ex, st, post, result):
    """fetch path with a cacheable result: store_tiles happens before the lock is released"""
    import z3
    goal = z3.BoolVal(True)
    for i, e in T.evs(st, '_query_sources'):
        if e.raised or e.result is None:
            continue
        res = e.result
        stores = [(j, s) for j, s in T.evs(st, 'store_tiles') if j > i and T.held(s) and T.held(s) == T.held(e)]
        if stores:
            continue
        # no store on this path: only allowed if the fetched image is empty/None or not cacheable
        img = res.val if hasattr(res, 'val') else res
        cacheable = ex.truth(st, ex.opaque_field(st, img, 'cacheable'))
        isnone = res.isnone if hasattr(res, 'isnone') else z3.BoolVal(False)
        truthy = ex.truth(st, res)
        goal = z3.And(goal, z3.Or(z3.Not(truthy), z3.Not(cacheable)))
    yield ('fetched_tiles_stored_under_lock', goal,
           'after an upstream fetch with a cacheable result, store_tiles is called before the lock is released')


def _failed_refresh_keeps_old_tile_ref(ex, st, post, result):
    return _failed_refresh_keeps_old_tile(ex, st, post, result)


contract(C + 'TileCreator._create_meta_tile', props=['C08', 'C04', 'C13'],
         types=dict(meta_tile='obj:mapproxy.grid:MetaTile'), returns='opaque',
         default_callee='opaque', opaque_spec=OPAQUE_SPEC, opaque_fields=OPAQUE_FIELDS, stable_fields=['cacheable', 'coord'],
         requires=[], raises={'SourceError': True, 'IOError': True},      # IOError: an undecodable meta image (split_meta_tiles)
         ensures=[],
         trace=[
             T.only_under_lock('_query_sources', text='C08(iii): the upstream is queried only while the meta tile lock is held'),
             T.preceded_by('_query_sources', 'is_cached', under_same_lock=True, quantified=True,
                           text='C08(iii): the upstream is queried only after a cache re-check of ALL tiles of the meta tile made under the same lock'),
             T.at_most_once('_query_sources', text='C08(iv)/C04: one upstream request per meta tile per invocation'),
             T.only_under_lock('store_tiles', text='C08: tiles are stored while the lock is held'),
             _lock_is_on_main_tile,
             _fetch_result_stored_under_lock,
             T.no_event_after('_query_sources', ['load_tiles'], text='fetch path does not fall back to a cache load'),
             _failed_refresh_keeps_old_tile_ref,
         ])


# ---- single tile creation (no meta tiling): check - lock - recheck - fetch - store; stale fallback (C13) -----------
def _single_lock_on_tile(ex, st, post, result):
    import z3
    ok = all(e.args and e.args[0] is post.env['tile'] for i, e in T.evs(st, 'lock')) and len(T.evs(st, 'lock')) >= 1
    yield ('lock_on_requested_tile', z3.BoolVal(ok), 'the lock is taken on the requested tile')


def _fetch_only_if_recheck_failed(ex, st, post, result):
    """a _query_sources event implies that the is_cached re-check made under the lock returned False"""
    import z3
    goal = z3.BoolVal(True)
    for i, e in T.evs(st, '_query_sources'):
        checks = [c for j, c in T.evs(st, 'is_cached') if j < i and T.held(c) and T.held(c) == T.held(e)]
        if not checks:
            goal = z3.BoolVal(False)
            continue
        goal = z3.And(goal, z3.Not(ex.truth(st, checks[-1].result)))
    yield ('fetch_only_if_not_cached', goal,
           'C13: a tile found fresh by the re-check under the lock causes no upstream request')


def _failed_refresh_keeps_old_tile(ex, st, post, result):
    """C13: when the upstream fails (SourceError from _query_sources) nothing is stored or removed afterwards"""
    import z3
    ok = True
    for i, e in T.evs(st, '_query_sources'):
        if e.raised:
            for j, x in T.evs(st, 'store_tile', 'store_tiles', 'remove_tile', 'remove_tiles'):
                if j > i:
                    ok = False
    yield ('failed_refresh_keeps_old_tile', z3.BoolVal(ok), 'C13: a refresh that fails stores/removes nothing')


def _single_store_under_lock(ex, st, post, result):
    import z3
    goal = z3.BoolVal(True)
    for i, e in T.evs(st, '_query_sources'):
        if e.raised or e.result is None:
            continue
        res = e.result
        stores = [(j, s) for j, s in T.evs(st, 'store_tile') if j > i and T.held(s) and T.held(s) == T.held(e)]
        loads = [(j, s) for j, s in T.evs(st, 'load_tile') if j > i]
        if stores or loads:
            continue
        img = res.val if hasattr(res, 'val') else res
        cacheable = ex.truth(st, ex.opaque_field(st, img, 'cacheable'))
        goal = z3.And(goal, z3.Or(z3.Not(ex.truth(st, res)), z3.Not(cacheable)))
    yield ('fetched_tile_stored_under_lock', goal,
           'after an upstream fetch with a cacheable result, store_tile is called before the lock is released '
           '(or the stale tile is served instead, when the source authorises that)')


contract(C + 'TileCreator._create_single_tile', props=['C08', 'C13'],
         types=dict(tile='opaque', dimensions='opaque'), returns='opaque',
         default_callee='opaque', opaque_spec=OPAQUE_SPEC, opaque_fields=OPAQUE_FIELDS, stable_fields=['cacheable', 'coord'],
         inline=['is_cached', 'is_stale'], opaque=['tile_bbox'],
         requires=[], raises={'SourceError': True, 'Exception': True},
         trace=[
             T.only_under_lock('_query_sources', text='C08(iii): the upstream is queried only while the tile lock is held'),
             T.preceded_by('_query_sources', 'is_cached', under_same_lock=True,
                           text='C08(iii): the upstream is queried only after a cache re-check made under the same lock'),
             T.at_most_once('_query_sources', text='C08(iv): one upstream request per invocation'),
             T.only_under_lock('store_tile', text='tiles are stored while the lock is held'),
             _single_lock_on_tile, _fetch_only_if_recheck_failed, _failed_refresh_keeps_old_tile, _single_store_under_lock,
         ])
