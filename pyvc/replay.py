"""Replay a counter-model against the REAL function.  Runs under /venv/bin/python (no z3 here).

usage: /venv/bin/python -m pyvc.replay <replay.json>      (PYTHONPATH must contain /verif and the repo root)
The replay file holds: target key, contract module(s), concrete inputs, the violated clause.
Exit 0: clause violated by the real function (reproduced); 10: not reproduced; 11: precondition not met by the
rebuilt input; 12: replay impossible (opaque inputs, no builder ...)."""
import ast
import copy
import importlib
import json
import os
import sys
import traceback
from fractions import Fraction

SLACK = Fraction(1, 10 ** 12)       # relative to the magnitude of the inputs (float noise is ~1e-16 relative)


def _listify(v, types):
    """generators (lazy in the real code, eager in the model) are materialised, also inside result tuples"""
    if isinstance(v, types.GeneratorType):
        return list(v)
    if isinstance(v, tuple):
        return tuple(_listify(x, types) for x in v)
    return v


class NoReplay(Exception):
    pass


def from_json(j, builders, path=''):
    if isinstance(j, dict):
        if '$real' in j:
            s = j['$real']
            try:
                return float(Fraction(s))
            except Exception:
                raise NoReplay('non-rational real %r' % s)
        if '$tuple' in j:
            return tuple(from_json(x, builders, path) for x in j['$tuple'])
        if '$bytes' in j:
            return j['$bytes'].encode('latin-1')
        if '$cls' in j:
            b = builders.get(j['$cls'])
            if b is None:
                raise NoReplay('no builder for %s' % j['$cls'])
            return b(j, lambda x: from_json(x, builders, path))
        if '$pydict' in j:
            return dict(j['$pydict'])
        if '$pyobj' in j:
            modname, cname, cargs = j['$pyobj']
            return getattr(importlib.import_module(modname), cname)(*[tuple(a) if isinstance(a, list) else a for a in cargs])
        if '$blob' in j:
            n = j.get('len', 0)
            tag = (j['$blob'].encode() * (n // max(1, len(j['$blob'])) + 1))[:n]
            return tag
        if '$opaque' in j:
            b = builders.get('$opaque')
            if b is None:
                raise NoReplay('opaque input')
            return b(j, None)
        raise NoReplay('cannot rebuild %r' % (j,))
    if isinstance(j, list):
        return [from_json(x, builders, path) for x in j]
    return j


def exact(v):
    if isinstance(v, bool):
        return v
    if isinstance(v, float):
        return Fraction(v)
    return v


def _float_leaves(v, depth=0, seen=None):
    """all float values reachable from the inputs (tuples, lists, dicts, object attributes)"""
    seen = seen if seen is not None else set()
    if depth > 6 or id(v) in seen:
        return
    if isinstance(v, float):
        if v == v and abs(v) != float('inf'):
            yield v
        return
    if isinstance(v, (int, str, bytes, bool)) or v is None:
        return
    seen.add(id(v))
    if isinstance(v, dict):
        for x in v.values():
            for y in _float_leaves(x, depth + 1, seen):
                yield y
    elif isinstance(v, (tuple, list)):
        for x in v:
            for y in _float_leaves(x, depth + 1, seen):
                yield y
    elif hasattr(v, '__dict__'):
        for x in vars(v).values():
            for y in _float_leaves(x, depth + 1, seen):
                yield y


class CEval(object):
    """concrete evaluator of the spec dialect on real Python objects"""

    def __init__(self, reg, env, old_env=None, strict=False):
        self.reg = reg
        self.env = env
        self.old_env = old_env
        self.strict = strict        # exact comparisons (used for preconditions: a borderline input is NOT accepted)
        self.scale = Fraction(max([1.0] + [abs(x) for x in _float_leaves(env)]))

    def ev(self, n, env=None):
        env = self.env if env is None else env
        m = getattr(self, 'c_' + type(n).__name__, None)
        if m is None:
            raise NoReplay('concrete eval of %s' % type(n).__name__)
        return m(n, env)

    def c_Constant(self, n, env):
        return exact(n.value)

    def c_Name(self, n, env):
        if n.id in env:
            return env[n.id]
        if n.id in ('True', 'False', 'None'):
            return {'True': True, 'False': False, 'None': None}[n.id]
        raise NoReplay('unknown name %s in spec' % n.id)

    def c_Attribute(self, n, env):
        return exact(getattr(self.ev(n.value, env), n.attr))

    def c_Subscript(self, n, env):
        b = self.ev(n.value, env)
        if isinstance(n.slice, ast.Slice):
            lo = self.ev(n.slice.lower, env) if n.slice.lower else None
            hi = self.ev(n.slice.upper, env) if n.slice.upper else None
            return b[lo:hi]
        i = self.ev(n.slice, env)
        v = b[i]
        return exact(v) if not isinstance(v, (tuple, list)) else v

    def c_Tuple(self, n, env):
        return tuple(self.ev(e, env) for e in n.elts)

    def c_List(self, n, env):
        return [self.ev(e, env) for e in n.elts]

    def c_UnaryOp(self, n, env):
        v = self.ev(n.operand, env)
        if isinstance(n.op, ast.Not):
            return not v
        if isinstance(n.op, ast.USub):
            return -exact(v)
        return v

    def c_BoolOp(self, n, env):
        if isinstance(n.op, ast.And):
            r = True
            for v in n.values:
                r = self.ev(v, env)
                if not r:
                    return r
            return r
        r = False
        for v in n.values:
            r = self.ev(v, env)
            if r:
                return r
        return r

    def c_IfExp(self, n, env):
        return self.ev(n.body, env) if self.ev(n.test, env) else self.ev(n.orelse, env)

    def c_BinOp(self, n, env):
        a, b = exact(self.ev(n.left, env)), exact(self.ev(n.right, env))
        op = n.op
        if isinstance(op, ast.Add):
            return a + b
        if isinstance(op, ast.Sub):
            return a - b
        if isinstance(op, ast.Mult):
            return a * b
        if isinstance(op, ast.Div):
            return Fraction(a) / Fraction(b)
        if isinstance(op, ast.FloorDiv):
            return a // b
        if isinstance(op, ast.Mod):
            return a % b
        if isinstance(op, ast.Pow):
            return a ** b
        if isinstance(op, ast.LShift):
            return a << b
        if isinstance(op, ast.RShift):
            return a >> b
        if isinstance(op, ast.BitAnd):
            return a & b
        raise NoReplay('binop')

    def cmp(self, op, a, b):
        num = lambda x: isinstance(x, (int, Fraction)) and not isinstance(x, bool)   # noqa
        inexact = (isinstance(a, Fraction) and a.denominator != 1) or (isinstance(b, Fraction) and b.denominator != 1)
        if num(a) and num(b) and inexact and not self.strict:
            tol = SLACK * (self.scale + abs(a) + abs(b))
            if isinstance(op, ast.Eq):
                return abs(a - b) <= tol
            if isinstance(op, ast.NotEq):
                return abs(a - b) > tol
            if isinstance(op, (ast.Lt, ast.LtE)):
                return a <= b + tol
            if isinstance(op, (ast.Gt, ast.GtE)):
                return a + tol >= b
        if isinstance(op, ast.Eq):
            return self.deep_eq(a, b)
        if isinstance(op, ast.NotEq):
            return not self.deep_eq(a, b)
        if isinstance(op, ast.Lt):
            return a < b
        if isinstance(op, ast.LtE):
            return a <= b
        if isinstance(op, ast.Gt):
            return a > b
        if isinstance(op, ast.GtE):
            return a >= b
        if isinstance(op, ast.Is):
            return a is b
        if isinstance(op, ast.IsNot):
            return a is not b
        if isinstance(op, ast.In):
            return a in b
        if isinstance(op, ast.NotIn):
            return a not in b
        raise NoReplay('compare')

    def deep_eq(self, a, b):
        if isinstance(a, (tuple, list)) and isinstance(b, (tuple, list)):
            return len(a) == len(b) and all(self.deep_eq(x, y) for x, y in zip(a, b))
        if isinstance(a, float) or isinstance(b, float) or isinstance(a, Fraction) or isinstance(b, Fraction):
            try:
                a2, b2 = Fraction(a), Fraction(b)
            except Exception:
                return a == b
            if self.strict:
                return a2 == b2
            return abs(a2 - b2) <= SLACK * (self.scale + abs(a2) + abs(b2))
        return a == b

    def c_Compare(self, n, env):
        left = self.ev(n.left, env)
        for op, c in zip(n.ops, n.comparators):
            right = self.ev(c, env)
            if not self.cmp(op, exact(left) if not isinstance(left, (tuple, list)) else left,
                            exact(right) if not isinstance(right, (tuple, list)) else right):
                return False
            left = right
        return True

    def c_Lambda(self, n, env):
        return ('lambda', n, env)

    def c_Call(self, n, env):
        f = n.func
        if isinstance(f, ast.Name):
            name = f.id
            if name == 'old':
                if self.old_env is None:
                    raise NoReplay('old() without pre-state')
                return self.ev(n.args[0], dict(self.old_env, **{k: v for k, v in env.items() if k.startswith('_')}))
            if name == 'implies':
                return (not self.ev(n.args[0], env)) or bool(self.ev(n.args[1], env))
            if name == 'iff':
                return bool(self.ev(n.args[0], env)) == bool(self.ev(n.args[1], env))
            if name in ('forall', 'exists'):
                lam = n.args[0]
                names = [a.arg for a in lam.args.args]
                if len(n.args) == 3 and len(names) == 1:
                    rngs = [range(int(self.ev(n.args[1], env)), int(self.ev(n.args[2], env)))]
                elif len(n.args) == 1 + len(names) and len(n.args) > 1:
                    rngs = []
                    for a in n.args[1:]:
                        lo, hi = self.ev(a, env)
                        rngs.append(range(int(lo), int(hi)))
                else:
                    rngs = [range(-2, 66)] * len(names)
                import itertools
                vals = (bool(self.ev(lam.body, dict(env, **dict(zip(names, c))))) for c in itertools.product(*rngs))
                return all(vals) if name == 'forall' else any(vals)
            if name in self.reg.ghosts:
                params, body = self.reg.ghosts[name]
                args = [self.ev(a, env) for a in n.args]
                conc = self.reg.ghost_concrete.get(name)
                if conc is not None:
                    return conc(*args)
                if callable(body):
                    raise NoReplay('ghost %s has no concrete twin' % name)
                return self.ev(body, dict(zip(params, args)))
            args = [self.ev(a, env) for a in n.args]
            if name == 'abs':
                return abs(exact(args[0]))
            if name == 'len':
                return len(args[0])
            if name == 'min':
                return min(exact(a) for a in (args if len(args) > 1 else args[0]))
            if name == 'max':
                return max(exact(a) for a in (args if len(args) > 1 else args[0]))
            if name == 'fmtd':
                return str(int(args[0]))
            if name == 'fmt0d':
                return '%0*d' % (int(args[0]), int(args[1]))
            if name == 'fmt0x':
                return '%0*x' % (int(args[0]), int(args[1]))
            if name == 'str_lower':
                return args[0].lower()
            if name == 'pjoin':
                import posixpath
                return posixpath.join(*args)
            if name == 'floor':
                import math
                return math.floor(exact(args[0]))
            if name == 'ceil':
                import math
                return math.ceil(exact(args[0]))
            if name == 'int':
                return int(args[0])
            if name == 'float':
                return Fraction(args[0])
            if name == 'isinstance':
                raise NoReplay('isinstance in spec')
            if name in env and env[name] and isinstance(env[name], tuple) and env[name][0] == 'lambda':
                _, lam, lenv = env[name]
                return self.ev(lam.body, dict(lenv, **dict(zip([a.arg for a in lam.args.args], args))))
            raise NoReplay('spec call %s' % name)
        if isinstance(f, ast.Attribute):
            obj = self.ev(f.value, env)
            args = [self.ev(a, env) for a in n.args]
            return exact(getattr(obj, f.attr)(*args))
        raise NoReplay('spec call')


def run(path):
    with open(path) as fh:
        rp = json.load(fh)
    out = {'status': None}
    try:
        for m in rp['modules']:
            importlib.import_module(m)
        from pyvc.api import REG
        c = REG.contracts[rp['target']]
        builders = dict(REG.builders)
        modname, qual = rp['target'].split(':')
        mod = importlib.import_module(modname)
        args = {p: from_json(v, builders) for p, v in rp['inputs'].items()}
        parts = qual.split('.')
        if len(parts) == 2:
            fn = getattr(type(args['self']), parts[1]) if 'self' in args else getattr(getattr(mod, parts[0]), parts[1])
        else:
            fn = getattr(mod, parts[0])
        old_args = {p: from_json(v, builders) for p, v in rp['inputs'].items()}    # independent pre-state copy
        # precondition on the rebuilt input
        ce = CEval(REG, dict(args), strict=True)
        pre_ok = True
        for r in c['requires']:
            if callable(r):
                continue
            try:
                if not ce.ev(REG.parse_spec(r)):
                    pre_ok = False
                    out['pre_failed'] = r
            except NoReplay as e:
                out.setdefault('pre_unevaluated', []).append(str(e))
        if not pre_ok:
            out['status'] = 'precondition-not-met'
            return out, 11
        raised = None
        result = None
        try:
            result = fn(**args)
            import types
            result = _listify(result, types)
        except Exception as e:      # noqa
            raised = e
        out['result'] = repr(result)[:2000]
        out['raised'] = repr(raised) if raised is not None else None
        kind = rp.get('kind', 'ensures')
        if kind in ('noexc', 'raises'):
            if raised is not None:
                out['status'] = 'reproduced'
                return out, 0
            out['status'] = 'not-reproduced'
            return out, 10
        if raised is not None:
            out['status'] = 'not-reproduced (real function raised %r)' % (raised,)
            return out, 10
        env = dict(args)
        env['result'] = result
        ce = CEval(REG, env, old_args)
        clause = rp['clause']
        ok = ce.ev(REG.parse_spec(clause))
        out['clause_value'] = bool(ok)
        if not ok:
            out['status'] = 'reproduced'
            return out, 0
        out['status'] = 'not-reproduced'
        return out, 10
    except NoReplay as e:
        out['status'] = 'no-replay: %s' % e
        return out, 12
    except Exception as e:      # noqa
        out['status'] = 'replay-error: %s: %s' % (type(e).__name__, e)
        out['traceback'] = traceback.format_exc()
        return out, 12


def _scratch_cwd():
    # replayed functions may be handed relative file names from a counter-model: run them in a scratch directory
    import atexit, os, shutil, tempfile
    here = os.getcwd()
    if here not in sys.path:
        sys.path.insert(0, here)
    d = tempfile.mkdtemp(prefix='pyvc-cwd.')
    os.chdir(d)
    atexit.register(lambda: (os.chdir(here), shutil.rmtree(d, ignore_errors=True)))


if __name__ == '__main__':
    _rp = os.path.abspath(sys.argv[1])
    _scratch_cwd()
    o, code = run(_rp)
    print(json.dumps(o, indent=1, default=str))
    sys.exit(code)
