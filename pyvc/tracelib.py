"""Combinators for trace conditions on orchestration functions (DESIGN.md section 2.7).

A path's ghost trace is a concrete Python list of Event objects (symbolic arguments); ordering / dominance
questions are decided concretely per path, argument conditions become z3 goals under the path condition.
A trace clause is  fn(ex, st, post, result) -> iterable of (id, z3 Bool goal, text)."""


def evs(st, *names):
    """events by name.  A callee that is itself under contract is recorded as `Class.name` instead of `name`: a bare name
    matches both, so putting a callee under contract never silently empties a clause of its callers."""
    def hit(n):
        return n in names or ('.' in n and n.rsplit('.', 1)[1] in names)
    return [(i, e) for i, e in enumerate(st.trace) if hit(e.name)]


def held(e):
    return tuple(e.ghost.get('held', ()))


def B(b):
    import z3
    return z3.BoolVal(bool(b))


def lock_event_for(st, cm):
    """the `lock` call event whose result is the context manager cm"""
    for i, e in enumerate(st.trace):
        if e.result is cm:
            return i, e
    return None, None


def never(name, text=None, when=None):
    def clause(ex, st, post, result):
        hits = evs(st, name)
        yield ('never_' + name, B(not hits), text or 'no %s event on any path' % name)
    return clause


def at_most_once(name, text=None):
    def clause(ex, st, post, result):
        yield ('at_most_once_' + name, B(len(evs(st, name)) <= 1), text or 'at most one %s event per invocation' % name)
    return clause


def only_under_lock(name, lock_name='lock', text=None):
    """every `name` event happens while a context manager returned by a `lock_name` call is entered"""
    def clause(ex, st, post, result):
        ok = True
        for i, e in evs(st, name):
            hs = held(e)
            ok = ok and any(lock_event_for(st, cm)[1] is not None and lock_event_for(st, cm)[1].name == lock_name for cm in hs)
        yield ('%s_only_under_%s' % (name, lock_name), B(ok), text or 'every %s event happens with the %s held' % (name, lock_name))
    return clause


def preceded_by(name, before, under_same_lock=False, text=None, quantified=None):
    """every `name` event is preceded on the path by a `before` event (optionally: made while the same lock was
    held, optionally: a quantified (comprehension) event)"""
    def clause(ex, st, post, result):
        ok = True
        for i, e in evs(st, name):
            found = False
            for j, b in evs(st, before):
                if j >= i:
                    continue
                if under_same_lock and not (held(b) and held(b) == held(e)):
                    continue
                if quantified is not None and (b.quant is not None) != quantified:
                    continue
                found = True
            ok = ok and found
        yield ('%s_preceded_by_%s' % (name, before), B(ok),
               text or 'every %s event is preceded by a %s event%s' % (name, before, ' under the same lock' if under_same_lock else ''))
    return clause


def no_event_after(name, forbidden, text=None):
    def clause(ex, st, post, result):
        ok = True
        for i, e in evs(st, name):
            for j, f in evs(st, *forbidden):
                if j > i:
                    ok = False
        yield ('no_%s_after_%s' % ('_'.join(forbidden), name), B(ok), text or 'no %s after %s' % (forbidden, name))
    return clause
