"""Witness of defect S1 (C05): MBTilesLevelCache.load_tiles / GeopackageLevelCache.load_tiles pick the level of the first
tile that needs loading and then test `if not level: return True` - for level 0 the bulk load reports success without
asking the level database, so a stored level-0 tile comes back without its bytes.  exit 1 = reproduces, exit 0 = not."""
import shutil
import sys
import tempfile
from io import BytesIO

from mapproxy.cache.mbtiles import MBTilesLevelCache
from mapproxy.cache.geopackage import GeopackageLevelCache
from mapproxy.cache.tile import Tile
from mapproxy.grid import tile_grid
from mapproxy.image import ImageSource
from PIL import Image


def png(color):
    buf = BytesIO()
    Image.new('RGB', (256, 256), color).save(buf, 'png')
    return buf.getvalue()


bad = []
tmp = tempfile.mkdtemp()
try:
    caches = [('mbtiles', MBTilesLevelCache(tmp + '/mb')),
              ('geopackage', GeopackageLevelCache(tmp + '/gp', tile_grid(3857, name='webmercator'), 'tiles'))]
    for name, cache in caches:
        for level in (0, 1):
            data = png((10 * level + 5, 0, 0))
            cache.store_tile(Tile((0, 0, level), ImageSource(BytesIO(data))))
            single = Tile((0, 0, level))
            cache.load_tile(single)
            bulk = Tile((0, 0, level))
            ok = cache.load_tiles([bulk])
            got = bulk.source.as_buffer().read() if bulk.source is not None else None
            want = single.source.as_buffer().read() if single.source is not None else None
            if want is None or got != want:
                bad.append('%s level %d: single load gives %s bytes, bulk load returns %r and gives %s'
                           % (name, level, None if want is None else len(want), ok, None if got is None else '%d bytes' % len(got)))
        cache.cleanup()
finally:
    shutil.rmtree(tmp, ignore_errors=True)
for b in bad:
    print(b)
sys.exit(1 if bad else 0)
