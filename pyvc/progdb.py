"""Program database: the real source of /repo, parsed with `ast` on every run (nothing is re-typed)."""
import ast
import hashlib
import os


class FunctionInfo(object):
    def __init__(self, module, cls, node, source):
        self.module = module            # ModuleInfo
        self.cls = cls                  # ClassInfo or None
        self.node = node
        self.name = node.name
        self.qualname = (cls.name + '.' if cls else '') + node.name
        self.key = '%s:%s' % (module.name, self.qualname)
        seg = ast.get_source_segment(source, node) or ''
        self.source = seg
        self.sha256 = hashlib.sha256(seg.encode('utf-8')).hexdigest()
        self.lines = (node.lineno, node.end_lineno)
        self.decorators = []
        for d in node.decorator_list:
            if isinstance(d, ast.Name):
                self.decorators.append(d.id)
            elif isinstance(d, ast.Attribute):
                self.decorators.append(d.attr)
            else:
                self.decorators.append(ast.dump(d))
        self.is_generator = any(isinstance(n, (ast.Yield, ast.YieldFrom)) for n in _walk_own(node))

    def __repr__(self):
        return '<fn %s>' % self.key


def _walk_own(fn):
    """walk a function body without descending into nested defs/lambdas."""
    stack = list(fn.body)
    while stack:
        n = stack.pop()
        yield n
        for c in ast.iter_child_nodes(n):
            if isinstance(c, (ast.FunctionDef, ast.AsyncFunctionDef, ast.Lambda, ast.ClassDef)):
                continue
            stack.append(c)


class ClassInfo(object):
    def __init__(self, module, node):
        self.module = module
        self.node = node
        self.name = node.name
        self.key = '%s:%s' % (module.name, node.name)
        self.methods = {}
        self.attrs = {}
        self.bases = node.bases


class ModuleInfo(object):
    def __init__(self, name, path):
        self.name = name
        self.path = path
        with open(path, encoding='utf-8') as f:
            self.source = f.read()
        self.tree = ast.parse(self.source, path)
        self.functions = {}
        self.classes = {}
        self.imports = {}     # local name -> (module, attr|None)
        self.consts = {}      # module-level NAME = expr
        for node in self.tree.body:
            self._top(node)

    def _top(self, node):
        if isinstance(node, ast.FunctionDef):
            self.functions[node.name] = FunctionInfo(self, None, node, self.source)
        elif isinstance(node, ast.ClassDef):
            ci = ClassInfo(self, node)
            for n in node.body:
                if isinstance(n, ast.FunctionDef):
                    ci.methods[n.name] = FunctionInfo(self, ci, n, self.source)
                elif isinstance(n, ast.Assign) and len(n.targets) == 1 and isinstance(n.targets[0], ast.Name):
                    ci.attrs[n.targets[0].id] = n.value
            self.classes[node.name] = ci
        elif isinstance(node, ast.Import):
            for a in node.names:
                self.imports[(a.asname or a.name).split('.')[0]] = (a.name if a.asname else a.name.split('.')[0], None)
        elif isinstance(node, ast.ImportFrom):
            mod = node.module or ''
            if node.level:
                base = self.name.split('.')
                base = base[:len(base) - node.level]
                mod = '.'.join(base + ([mod] if mod else []))
            for a in node.names:
                self.imports[a.asname or a.name] = (mod, a.name)
        elif isinstance(node, ast.Assign) and len(node.targets) == 1 and isinstance(node.targets[0], ast.Name):
            self.consts[node.targets[0].id] = node.value
        elif isinstance(node, (ast.Try, ast.If)):
            for n in node.body:
                self._top(n)


class ProgDB(object):
    def __init__(self, root='/repo'):
        self.root = root
        self.modules = {}

    def module(self, name):
        if name in self.modules:
            return self.modules[name]
        rel = name.replace('.', '/')
        # verification harnesses (verif_harness.*: a few lines that CALL the real functions, like a proof harness in
        # any deductive verifier) live next to the contracts, never in the repository
        root = os.path.dirname(os.path.dirname(os.path.abspath(__file__))) if name.split('.')[0] == 'verif_harness' else self.root
        for cand in (rel + '.py', rel + '/__init__.py'):
            p = os.path.join(root, cand)
            if os.path.exists(p):
                m = ModuleInfo(name, p)
                self.modules[name] = m
                return m
        self.modules[name] = None
        return None

    def function(self, key):
        """'pkg.mod:Class.func' or 'pkg.mod:func' -> FunctionInfo or None"""
        modname, qual = key.split(':')
        m = self.module(modname)
        if m is None:
            return None
        parts = qual.split('.')
        if len(parts) == 1:
            return m.functions.get(parts[0])
        ci = m.classes.get(parts[0])
        if ci is None:
            return None
        return ci.methods.get(parts[1])

    def cls(self, key):
        modname, name = key.split(':')
        m = self.module(modname)
        return m.classes.get(name) if m else None

    def resolve_name(self, module, name):
        """what does global `name` denote in `module`?  -> ('func', FunctionInfo) | ('class', ClassInfo) |
        ('module', modname) | ('const', (ModuleInfo, expr)) | None"""
        if name in module.functions:
            return ('func', module.functions[name])
        if name in module.classes:
            return ('class', module.classes[name])
        if name in module.consts:
            return ('const', (module, module.consts[name]))
        if name in module.imports:
            mod, attr = module.imports[name]
            if attr is None:
                return ('module', mod)
            m = self.module(mod)
            if m is None:
                sub = self.module(mod + '.' + attr)
                if sub is not None:
                    return ('module', mod + '.' + attr)
                return ('extern', (mod, attr))
            if attr in m.functions or attr in m.classes or attr in m.consts or attr in m.imports:
                return self.resolve_name(m, attr)
            sub = self.module(mod + '.' + attr)
            if sub is not None:
                return ('module', mod + '.' + attr)
            return ('extern', (mod, attr))
        return None

    def mro(self, ci):
        """linearised list of ClassInfo (depth-first, left to right; enough for the single-inheritance code)."""
        out = []
        seen = set()

        def visit(c):
            if c.key in seen:
                return
            seen.add(c.key)
            out.append(c)
            for b in c.bases:
                if isinstance(b, ast.Name):
                    r = self.resolve_name(c.module, b.id)
                    if r and r[0] == 'class':
                        visit(r[1])
        visit(ci)
        return out

    def find_method(self, ci, name):
        for c in self.mro(ci):
            if name in c.methods:
                return c.methods[name]
        return None

    def find_class_attr(self, ci, name):
        for c in self.mro(ci):
            if name in c.attrs:
                return c, c.attrs[name]
        return None
