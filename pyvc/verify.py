"""Verify one contract target: generate VCs from the real AST, discharge them, extract counter-models."""
import ast
import json
import os
import subprocess
import tempfile
import time
import traceback
from fractions import Fraction

import z3

from .values import (VInt, VReal, VBool, VStr, VNone, NONE, VOpt, VSeq, VObj, VOpaque, VBlob, VFunc, VDict,
                     Unsupported, Raised, parse_type, expand_unions, Ty)
from .engine import Executor, State, NEXT, RETURN, RAISE
from .progdb import ProgDB


class TargetResult(object):
    def __init__(self, key):
        self.key = key
        self.obligations = {}     # oid -> dict(verdict, ms, backend, paths, kind, clause, model?)
        self.info = {}
        self.error = None
        self.unsupported = None


def type_variants(types, params):
    """cartesian expansion of non-None unions over the parameters"""
    combos = [{}]
    for p in params:
        alts = expand_unions(parse_type(types[p]))
        combos = [dict(c, **{p: a}) for c in combos for a in alts]
    return combos


def materialize(ex, st, obj, depth=0):
    """eagerly create all declared fields of an object (so pre-state snapshots are complete)"""
    if obj.cls.startswith('$'):
        return
    decl = ex.reg.class_decl(obj.cls, ex.db)
    if decl is None:
        return
    for f, ty in decl['fields'].items():
        if f in st.heap[obj.ref]:
            continue
        alts = expand_unions(parse_type(ty))
        if len(alts) != 1:
            raise Unsupported('union-typed field %s.%s (use opt[...] or a contract variant)' % (obj.cls, f))
        if alts[0].kind == 'obj' and depth >= 3:
            continue
        v = ex.fresh(st, alts[0], '%s.%s' % (obj.cls.split(':')[-1], f))
        st.heap[obj.ref][f] = v


def build_inputs(ex, st, fi, c, variant):
    params = [a.arg for a in fi.node.args.posonlyargs + fi.node.args.args + fi.node.args.kwonlyargs]
    if fi.node.args.kwarg is not None and fi.node.args.kwarg.arg in variant:
        params.append(fi.node.args.kwarg.arg)
    env = {}
    for p in params:
        ty = variant[p]
        env[p] = ex.fresh(st, ty, p)
    return env


def param_types(fi, c):
    params = [a.arg for a in fi.node.args.posonlyargs + fi.node.args.args + fi.node.args.kwonlyargs]
    if fi.node.args.kwarg is not None and fi.node.args.kwarg.arg in c.get('types', {}):
        params.append(fi.node.args.kwarg.arg)       # **kw as one (typed, usually opaque) mapping
    types = dict(c.get('types', {}))
    if fi.cls is not None and params and params[0] == 'self' and 'self' not in types:
        types['self'] = 'obj:%s' % (c.get('self_class') or fi.cls.key)
    missing = [p for p in params if p not in types]
    for p in missing:
        # a parameter the contract does not know (the signature changed): an unknown value - anything the caller may pass
        types[p] = 'opaque'
    return params, types


def concretize(model, v, st, depth=0):
    """model value -> JSON-able python (ints, 'p/q' strings for reals, lists, dicts)"""
    def ev(t):
        return model.eval(t, model_completion=True)
    if isinstance(v, VInt):
        r = ev(v.t)
        return r.as_long() if z3.is_int_value(r) else str(r)
    if isinstance(v, VReal):
        r = ev(v.t)
        if z3.is_rational_value(r):
            return {'$real': '%s/%s' % (r.numerator_as_long(), r.denominator_as_long())}
        if z3.is_algebraic_value(r):
            a = r.approx(20)
            return {'$real': '%s/%s' % (a.numerator_as_long(), a.denominator_as_long()), 'approx': True}
        return {'$real': str(r)}
    if isinstance(v, VBool):
        return z3.is_true(ev(v.t))
    if isinstance(v, VStr):
        r = ev(v.t)
        s = r.as_string() if z3.is_string_value(r) else str(r)
        return {'$bytes': s} if v.isbytes else s
    if isinstance(v, VNone):
        return None
    if isinstance(v, VOpt):
        if z3.is_true(ev(v.isnone)):
            return None
        return concretize(model, v.val, st, depth)
    if isinstance(v, VSeq):
        if v.concrete:
            items = [concretize(model, x, st, depth) for x in v.items]
        else:
            n = ev(v.length())
            n = n.as_long() if z3.is_int_value(n) else 0
            n = max(0, min(n, 40))
            items = [concretize(model, v.elem(z3.IntVal(i)), st, depth) for i in range(n)]
        return {'$tuple': items} if v.kind == 'tuple' else items
    if isinstance(v, VObj):
        if depth > 4:
            return {'$cls': v.cls, '$ref': v.ref}
        out = {'$cls': v.cls, '$ref': v.ref}
        for f, fv in st.heap.get(v.ref, {}).items():
            if f.startswith('$'):
                continue
            if isinstance(fv, (VFunc,)):
                continue
            try:
                out[f] = concretize(model, fv, st, depth + 1)
            except Exception as e:      # noqa
                out[f] = {'$error': str(e)}
        return out
    if isinstance(v, VOpaque):
        return {'$opaque': str(ev(v.t))}
    if isinstance(v, VBlob):
        n = ev(v.len)
        return {'$blob': str(ev(v.t)), 'len': n.as_long() if z3.is_int_value(n) else 0}
    if isinstance(v, VDict):
        if v.items is not None:
            return {'$dict': [[list(k), concretize(model, x, st, depth)] for k, x in v.items.items()]}
        return {'$symdict': True}
    return {'$unknown': repr(v)}


# ---------------------------------------------------------------------------------------------------------
def solve_vc(pc, goal, timeout_ms, want_model=True):
    """-> (verdict, model, ms, backend, why)   [approximate candidates are NOT returned here: full solve]"""
    from . import smt
    r = smt.solve(pc, goal, timeout_ms)
    if r['approx']:
        r2 = smt.solve_full(smt.full_formulas(pc, goal), timeout_ms)
        r2['ms'] += r['ms']
        r = r2
    return r['verdict'], r['model'], r['ms'], r['backend'], r['why']


def replay_candidate(key, kind, clause, inputs, modules, repo):
    """run the replayer (under /venv/bin/python) on a candidate counter-model; -> (reproduced?, status dict)"""
    verif = os.path.dirname(os.path.dirname(os.path.abspath(__file__)))
    fd, path = tempfile.mkstemp(suffix='.json', prefix='pyvc-cand-')
    os.close(fd)
    try:
        with open(path, 'w') as f:
            json.dump({'target': key, 'kind': kind, 'clause': clause, 'inputs': inputs, 'modules': modules}, f, default=str)
        env = dict(os.environ, PYTHONPATH='%s:%s' % (verif, repo))
        p = subprocess.run(['/venv/bin/python', '-m', 'pyvc.replay', path], env=env, cwd=verif, capture_output=True,
                           text=True, timeout=120)
        try:
            st = json.loads(p.stdout)
        except Exception:
            st = {'status': 'replay-error', 'stderr': p.stderr[-500:]}
        return p.returncode == 0, st
    except Exception as e:      # noqa
        return False, {'status': 'replay-error: %s' % e}
    finally:
        os.unlink(path)


def verify_target(db, reg, key, timeout_ms=20000, want_smt2=False, findings=(), modules=()):
    """-> TargetResult (JSON-able via .obligations/.info)"""
    res = TargetResult(key)
    c = reg.contracts[key]
    fi = db.function(key)
    qual = key.split(':')[1]
    if fi is None:
        res.obligations['%s.present' % qual] = {'verdict': 'missing', 'kind': 'present', 'paths': 0, 'ms': 0,
                                                'backend': '-', 'clause': 'function exists in /repo'}
        return res
    res.info = {'qualname': key, 'file': os.path.relpath(fi.module.path, db.root), 'lines': list(fi.lines),
                'sha256': fi.sha256}
    ex = Executor(db, reg)
    ex.cur_target = c
    t_start = time.time()
    try:
        c_base = c
        variants = []
        for cv in (c_base.get('variants') or [{}]):
            c_v = dict(c_base, **cv)
            params, types = param_types(fi, c_v)
            for tv in type_variants(types, params):
                variants.append((c_v, tv))
        all_vcs = []
        normal_exits = 0
        exits = []
        pre_models = []
        saved_classes = {}
        for vi, (c, variant) in enumerate(variants):
            ex.cur_target = c
            # per-variant class field overrides: {class key: {field: type}}
            for ck_, (flds_) in saved_classes.items():
                reg.classes[ck_]['fields'] = dict(flds_)
            saved_classes = {}
            for ck_, ov_ in (c.get('fields_override') or {}).items():
                saved_classes[ck_] = dict(reg.classes[ck_]['fields'])
                reg.classes[ck_]['fields'].update(ov_)
            st = State()
            st.fn = fi
            st.module = fi.module
            env = build_inputs(ex, st, fi, c, variant)
            st.env = dict(env)
            spec = st.fork()
            spec.spec = True
            for r in c['requires']:
                st.assume(ex.spec_bool(spec, r))
                spec.pc = st.pc
            # vacuity: the precondition must be satisfiable
            s = z3.Solver()
            s.set('timeout', timeout_ms)
            s.add(*st.pc)
            chk = s.check()
            if chk == z3.unsat:
                continue
            if chk == z3.sat and len(pre_models) < 1:
                pre_models.append(concretize_inputs(s.model(), env, st))
            # optional case split of the pre-state (each case is verified separately; the cases are exhaustive by
            # construction: cond / not cond)
            starts = [st]
            for sp_expr in c.get('split', []):
                new_starts = []
                for s0 in starts:
                    spx = s0.fork()
                    spx.spec = True
                    cnd = ex.spec_bool(spx, sp_expr)
                    for s1, _b in ex.branch(s0, cnd):
                        new_starts.append(s1)
                starts = new_starts
            ex.vcs = []
            for st in starts:
                n_before = len(ex.vcs)
                snapshot = st.fork()
                st.entry = snapshot
                st.yielded = None
                if fi.is_generator:
                    rty = parse_type(c.get('returns', 'list[opaque]'))
                    proto = ex.fresh(st, rty, 'y_empty')
                    st.yielded = VSeq(length=z3.IntVal(0), elem=proto.elem, kind='list')
                outs = ex.exec_block(st, fi.node.body)
                for s2, (kind, val) in outs:
                    if kind == RAISE:
                        handle_raise(ex, c, qual, s2, val, env, snapshot)
                        exits.append('raise ' + val.cls)
                        continue
                    if kind == NEXT:
                        val = NONE
                    if fi.is_generator:
                        val = s2.yielded
                    normal_exits += 1
                    exits.append('return')
                    post = s2.fork()
                    post.pc = s2.pc     # facts about uninterpreted images met while evaluating a clause stay known
                    post.spec = True
                    post.env = dict(env)
                    post.env['result'] = val
                    post.old = snapshot
                    for i, e in enumerate([] if c.get('assume_ensures') else c['ensures']):
                        if callable(e) and c.get('bounded'):
                            continue        # concrete clause of the bounded stand-in
                        g = ex.spec_bool(post, e)
                        ex.oblige(s2, g, '%s.ensures#%d' % (qual, i), 'ensures', key, {'clause': clause_text(e)})
                    if 'modifies' in c:
                        # frame: every declared field of every parameter object that is not listed keeps its value
                        from .values import eq as _eq
                        allowed = set(c['modifies'])
                        for pname, pv in env.items():
                            if not isinstance(pv, VObj) or pv.cls.startswith('$'):
                                continue
                            for fld, oldv in snapshot.heap.get(pv.ref, {}).items():
                                if fld.startswith('$') or '%s.%s' % (pname, fld) in allowed or '%s.*' % pname in allowed:
                                    continue
                                newv = s2.heap.get(pv.ref, {}).get(fld)
                                if newv is oldv:
                                    continue
                                try:
                                    g = _eq(newv, oldv) if newv is not None else z3.BoolVal(False)
                                except Unsupported:
                                    g = z3.BoolVal(False)
                                ex.oblige(s2, g, '%s.frame.%s.%s' % (qual, pname, fld), 'frame', key,
                                          {'clause': '%s.%s is not modified' % (pname, fld)})
                    for tr in c.get('trace', []):
                        cnt = ex.__dict__.setdefault('trace_yields', {})
                        cnt.setdefault(getattr(tr, '__name__', 'clause'), 0)
                        for oid, g, text in tr(ex, s2, post, val):
                            cnt[getattr(tr, '__name__', 'clause')] += 1
                            ex.oblige(s2, g, '%s.trace.%s' % (qual, oid), 'trace', key, {'clause': text})
                    if c.get('must_fail'):
                        g = ex.spec_bool(post, c['must_fail'])
                        ex.oblige(s2, g, '%s.must_fail' % qual, 'must_fail', key, {'clause': c['must_fail']})
                for vc in ex.vcs[n_before:]:
                    vc.inputs = env
                    vc.snapshot = snapshot
            all_vcs.extend(ex.vcs)
        res.info['paths'] = len(exits)
        res.info['normal_exits'] = normal_exits
        res.info['pre_sat'] = bool(pre_models)
        res.info['pre_model'] = pre_models[0] if pre_models else None
        res.info['inlined'] = sorted(ex.used_inline)
        res.info['callee_contracts'] = sorted(ex.used_contracts)
        res.info['stubs'] = sorted(ex.used_stubs)
        res.info['opaque'] = sorted(ex.used_opaque)
        res.info['dropped'] = sorted(ex.dropped)
        res.info['feasibility_checks'] = ex.feas_calls
        # every ensures clause must at least exist as an obligation even if no normal exit (then cover fails)
        obl = res.obligations
        obl['%s.pre_sat' % qual] = {'verdict': 'unsat' if pre_models else 'vacuous', 'kind': 'vacuity', 'paths': 1,
                                    'ms': 0, 'backend': 'z3', 'clause': 'requires is satisfiable'}
        if c['ensures'] or c.get('trace'):
            obl['%s.cover' % qual] = {'verdict': 'unsat' if normal_exits > 0 else 'vacuous', 'kind': 'vacuity',
                                      'paths': normal_exits, 'ms': 0, 'backend': 'z3',
                                      'clause': 'a normal exit is reachable'}
        for i, e in enumerate([] if c.get('assume_ensures') else c['ensures']):
            if callable(e) and c.get('bounded'):
                continue
            obl.setdefault('%s.ensures#%d' % (qual, i), new_ob('ensures', clause_text(e)))
        if 'modifies' in c:
            o_ = obl.setdefault('%s.frame' % qual, new_ob('frame', 'only %s is modified' % (c['modifies'] or 'nothing')))
            o_['paths'] = max(1, normal_exits)
        # a trace clause that never produced an obligation on any explored path decides nothing: vacuity guard
        for name_, n_ in sorted(getattr(ex, 'trace_yields', {}).items()):
            obl['%s.trace_applies.%s' % (qual, name_)] = {
                'verdict': 'unsat' if n_ > 0 else 'vacuous', 'kind': 'vacuity', 'paths': n_, 'ms': 0, 'backend': '-',
                'clause': 'trace clause %s yields at least one obligation on some path' % name_}
        # discharge
        retry_spent = [0]
        for vc in all_vcs:
            o = obl.setdefault(vc.oid, new_ob(vc.kind, vc.info.get('clause', '')))
            o['paths'] += 1
            if o['verdict'] in ('sat', 'unknown') and vc.kind != 'must_fail':
                continue
            if vc.kind == 'must_fail':
                if o.get('refuted_once'):
                    continue
                from . import smt as _smt
                t_mf = time.time()
                r_mf, _s = _smt._z3_check(_smt.full_formulas(vc.pc, vc.goal), 1500)
                verdict = 'unsat' if r_mf == z3.unsat else ('sat' if r_mf == z3.sat else 'unknown')
                o['ms'] += int((time.time() - t_mf) * 1000)
                if verdict != 'unsat':
                    o['refuted_once'] = True     # sat, or at least not provable: the false clause is not "proved"
                    o['must_fail_verdict'] = verdict
                continue
            fnd = [f for f in findings if f['obligation'].endswith('.' + vc.oid)]
            pc = vc.pc
            if fnd:
                # a recorded, still reproducing finding covers this obligation (the driver has replayed its
                # witness on the real code): prove the obligation OUTSIDE the recorded failure class
                sp = vc.snapshot.fork()
                sp.spec = True
                sp.env = dict(vc.inputs)
                sp.pc = list(vc.pc)
                if str(fnd[0]['class']).startswith('py:'):
                    klass = reg.finding_classes[fnd[0]['class'][3:]](ex, vc.st)
                else:
                    klass = ex.spec_bool(sp, fnd[0]['class'])
                pc = list(vc.pc) + [z3.Not(klass)]
                o['known'] = True
                o['finding_id'] = fnd[0].get('id')
                o['finding_what'] = fnd[0].get('what', '')
            from . import smt
            r1 = smt.solve(pc, vc.goal, timeout_ms)
            verdict, model, ms, backend, why = r1['verdict'], r1['model'], r1['ms'], r1['backend'], r1['why']
            if r1['approx']:
                # candidate from the quantifier-instantiated approximation: confirm on the real code, or fall
                # back to the full solvers
                confirmed = False
                if not fnd and vc.kind in ('ensures', 'noexc', 'raises') and modules:
                    try:
                        cand = concretize_inputs(model, vc.inputs, vc.snapshot)
                        ok, stt = replay_candidate(key, vc.kind, vc.info.get('clause'), cand, list(modules), db.root)
                        if ok:
                            confirmed = True
                            o['prereplayed'] = 'reproduced'
                    except Exception as e:      # noqa
                        pass
                if not confirmed:
                    # a quantifier-free instance set is satisfiable: a proof is unlikely; bounded second look
                    r2 = smt.solve_full(smt.full_formulas(pc, vc.goal), min(timeout_ms, 20000 if tier_quick(timeout_ms) else 120000))
                    verdict, model, backend, why = r2['verdict'], r2['model'], r2['backend'], r2['why']
                    ms += r2['ms']
                    if verdict == 'sat' and model is None:
                        model = r1['model']      # best effort: show the candidate
            o['ms'] += ms
            if backend not in o['backend']:
                o['backend'].append(backend)
            if vc.kind == 'must_fail':
                if verdict == 'sat':
                    o['refuted_once'] = True
                continue
            if verdict == 'unsat':
                continue
            if verdict == 'sat':
                o['verdict'] = 'sat'
                o['where'] = vc.where
                if model is not None and not o.get('prereplayed'):
                    try:
                        m2 = smt.polish(pc, vc.goal)
                        if m2 is not None:
                            model = m2
                    except z3.Z3Exception:
                        pass
                if model is not None:
                    try:
                        o['model'] = concretize_inputs(model, vc.inputs, vc.snapshot)
                    except Exception as e:  # noqa
                        o['model_error'] = '%s: %s' % (type(e).__name__, e)
                if want_smt2:
                    o['smt2'] = vc_smt2(vc)
            else:
                any_sat = any(x.get('verdict') == 'sat' for x in obl.values())
                if o['verdict'] != 'sat' and tier_quick(timeout_ms) and not os.environ.get('PYVC_NO_RETRY') \
                        and not any_sat and retry_spent[0] < 360000:
                    # undecided within the quick budget: one long retry before this is reported (an alarm on the
                    # unchanged tree must never come from a busy machine).  Not when another obligation of this
                    # function is already refuted (the verdict is a violation anyway), and at most 6 minutes per function.
                    r3 = smt.solve_full(smt.full_formulas(pc, vc.goal), 180000)
                    retry_spent[0] += r3['ms']
                    o['ms'] += r3['ms']
                    if r3['verdict'] == 'unsat':
                        if 'z3-long' not in o['backend']:
                            o['backend'].append('z3-long')
                        continue
                if o['verdict'] != 'sat':
                    o['verdict'] = 'unknown'
                    o['why'] = str(why)
                    o['where'] = vc.where
                    if os.environ.get('PYVC_DUMP'):
                        with open(os.path.join(os.environ['PYVC_DUMP'], vc.oid.replace('/', '_') + '.smt2'), 'w') as fh:
                            sd = z3.Solver()
                            sd.add(*smt.full_formulas(pc, vc.goal))
                            fh.write(sd.to_smt2())
        for oid, o in obl.items():
            if o['kind'] == 'must_fail':
                o['verdict'] = 'unsat' if o.get('refuted_once') else 'vacuous'
                o['clause'] = 'deliberately false postcondition is refuted: ' + str(o['clause'])
            elif o['verdict'] == 'pending' and o.get('known'):
                o['verdict'] = 'known'
            elif o['verdict'] == 'pending':
                o['verdict'] = 'unsat' if o['paths'] > 0 or o['kind'] not in ('ensures',) else 'vacuous'
            o['backend'] = ','.join(o['backend']) if isinstance(o['backend'], list) else o['backend']
        if want_smt2 and all_vcs:
            res.info['sample_smt2'] = vc_smt2(all_vcs[0])[:6000]
            res.info['sample_oid'] = all_vcs[0].oid
    except Unsupported as e:
        res.unsupported = str(e)
    except Exception as e:      # checker bug
        res.error = '%s: %s\n%s' % (type(e).__name__, e, traceback.format_exc())
    res.info['wall_s'] = round(time.time() - t_start, 3)
    return res


def tier_quick(timeout_ms):
    return timeout_ms <= 60000


def clause_text(c):
    if callable(c):
        return getattr(c, '__doc__', None) or getattr(c, '__name__', 'callable clause')
    return ' '.join(str(c).split())


def new_ob(kind, clause):
    return {'verdict': 'pending', 'kind': kind, 'paths': 0, 'ms': 0, 'backend': [], 'clause': clause}


def vc_smt2(vc):
    s = z3.Solver()
    s.add(*vc.pc)
    s.add(z3.Not(vc.goal))
    return s.to_smt2()


def concretize_inputs(model, env, st):
    return {p: concretize(model, v, st) for p, v in env.items()}


def handle_raise(ex, c, qual, st, val, env, snapshot):
    raises = c.get('raises', {})
    # exceptional postconditions: clauses / trace clauses that must hold when the function exits with this exception
    for exc, clauses in (c.get('raises_ensures') or {}).items():
        if ex.exc_isinstance(val.cls, exc):
            post = st.fork()
            post.spec = True
            post.env = dict(env)
            post.old = snapshot
            for i, e in enumerate(clauses):
                if callable(e):
                    for oid, g, text in e(ex, st, post, val):
                        ex.oblige(st, g, '%s.on_%s.%s' % (qual, exc, oid), 'trace', qual, {'clause': text})
                else:
                    ex.oblige(st, ex.spec_bool(post, e), '%s.on_%s#%d' % (qual, exc, i), 'ensures', qual,
                              {'clause': clause_text(e)})
    for exc, cond in raises.items():
        if ex.exc_isinstance(val.cls, exc):
            if cond is True:
                return
            pre = snapshot.fork()
            pre.spec = True
            pre.env = dict(env)
            pre.pc = st.pc
            g = ex.spec_bool(pre, cond)
            ex.oblige(st, g, '%s.raises.%s' % (qual, exc), 'raises', qual, {'clause': clause_text(cond)})
            return
    ex.oblige(st, z3.BoolVal(False), '%s.no_unexpected_exception' % qual, 'noexc', qual,
              {'clause': 'no exception other than the declared ones (got %s: %s)' % (val.cls, val.note)})


def verify_lemma(lem, timeout_ms=20000, findings=(), reg=None):
    t0 = time.time()
    hyps, goal = lem['fn'](z3)
    hyps = list(hyps)
    out_extra = {}
    fnd = [f for f in findings if f['obligation'].endswith('.' + lem['id'])]
    if fnd:
        klass = reg.finding_classes[fnd[0]['class'][3:]](z3)
        hyps = hyps + [z3.Not(klass)]
        out_extra = {'known': True, 'finding_id': fnd[0].get('id'), 'finding_what': fnd[0].get('what', '')}
    verdict, model, ms, backend, why = solve_vc(hyps, goal, timeout_ms)
    if verdict == 'unsat' and fnd:
        verdict = 'known'
    o = {'verdict': verdict, 'kind': 'lemma', 'paths': 1, 'ms': ms, 'backend': backend,
         'clause': lem.get('doc') or lem['id'], 'why': str(why) if why else None}
    o.update(out_extra)
    if verdict == 'sat' and model is not None:
        o['model'] = {str(d): str(model[d]) for d in model.decls()}
    return o
