"""C18 - every request gets a well-formed answer and cannot inject markup: escaping dataflow and the catch-all
(the universal "never raises for any request" is not decidable by per-function contracts and is not claimed)."""
from pyvc.api import contract, cls, ghost, lemma
from pyvc import tracelib as T
from . import c20_conditional  # noqa  (class Response)
E_ = 'mapproxy.exception:'


def _message_is_escaped(ex, st, post, result):
    """the text put into the error document is html.escape(request_error.msg), unmodified"""
    import z3
    from pyvc.values import eq
    esc = T.evs(st, 'xml_text')
    sub = T.evs(st, 'substitute')
    req = post.env['request_error']
    ok = len(esc) == 1 and len(sub) == 1
    goal = z3.BoolVal(ok)
    if ok:
        goal = z3.And(goal, z3.BoolVal(sub[0][1].kwargs.get('exception') is esc[0][1].result),
                      eq(esc[0][1].args[0], ex.opaque_field_at(st, esc[0][1], req, 'msg')),
                      z3.BoolVal(len(esc[0][1].args) == 1 and not esc[0][1].kwargs))
    yield ('exception_text_is_escaped_message', goal,
           "template variable `exception` is exactly xml_text(request_error.msg) - html.escape (quotes included) of the message without "
           "the characters XML 1.0 does not allow: request-derived text only appears as escaped character data, never cut inside an "
           "entity or re-assembled")
    resp = T.evs(st, 'Response')
    yield ('document_is_the_rendered_template', z3.BoolVal(len(resp) == 1 and bool(sub) and resp[0][1].args[0] is sub[0][1].result),
           'the response body is the rendered template')


for k in ('XMLExceptionHandler', 'OWSExceptionHandler'):
    cls(E_ + k, fields=dict(status_code='int', status_codes='opaque', mimetype='opt[str]', content_type='opt[str]',
                            template_file='opaque', template_func='opaque'))
    contract(E_ + k + '.render', props=['C18'], types=dict(request_error='opaque'), returns='opaque', default_callee='opaque',
             opaque_fields={'msg': 'str', 'status': 'opt[int]'}, stable_fields=['msg', 'status', 'code', 'locator'],
             opaque_spec={'xml_text': {'returns': 'str', 'pure': True}, 'substitute': {'pure': True}, 'get': {'pure': True},
                          'template': {'pure': True}, 'Response': {'pure': True}},
             opaque=['template', 'Response', 'xml_text'],
             trace=[_message_is_escaped])


# ---- xml_text itself: the handlers above rely on "xml_text(msg) is msg as escaped character data" ---------------------------
def _xml_text_is_whole_escape(ex, st, post, result):
    """the result IS html.escape(<msg without the characters XML forbids>): nothing is appended, cut (a cut after escaping can
    land inside an entity) or re-assembled after the escape, and what is escaped is derived from msg by the removal only"""
    import z3
    from pyvc.values import eq, VStr
    esc = T.evs(st, 'escape')
    sub = T.evs(st, 'sub')
    ok = len(esc) == 1 and len(sub) == 1
    goal = z3.BoolVal(ok)
    if ok:
        e, s_ = esc[0][1], sub[0][1]
        goal = z3.And(goal, z3.BoolVal(result is e.result), z3.BoolVal(len(e.args) == 1 and e.args[0] is s_.result),
                      z3.BoolVal(not e.kwargs or set(e.kwargs) <= {'quote'}),
                      z3.BoolVal(len(s_.args) == 2), eq(s_.args[1], post.env['msg']) if len(s_.args) == 2 else z3.BoolVal(False),
                      eq(s_.args[0], VStr('')) if len(s_.args) == 2 else z3.BoolVal(False))
        for k, v in e.kwargs.items():
            goal = z3.And(goal, ex.truth(st, v))
    yield ('xml_text_is_the_whole_escaped_message', goal,
           'xml_text(msg) returns html.escape(_illegal_xml_chars.sub("", msg)) itself, quotes included: the escaped text is not cut, '
           'extended or edited afterwards')




def _plain_is_text_plain(ex, st, post, result):
    import z3
    from pyvc.values import eq, VStr
    resp = T.evs(st, 'Response')
    ok = len(resp) == 1
    goal = z3.BoolVal(ok)
    if ok:
        mt = resp[0][1].kwargs.get('mimetype')
        goal = z3.And(goal, eq(mt, VStr('text/plain')) if mt is not None else z3.BoolVal(False))
    yield ('unescaped_message_only_as_text_plain', goal,
           'PlainExceptionHandler sends the raw message, therefore always with mimetype text/plain')


cls(E_ + 'PlainExceptionHandler', fields=dict(status_code='int'))
contract(E_ + 'PlainExceptionHandler.render', props=['C18'], types=dict(request_error='opaque'), returns='opaque',
         default_callee='opaque', opaque_fields={'internal': 'bool', 'msg': 'str'}, opaque=['Response'],
         opaque_spec={'Response': {'pure': True}}, trace=[_plain_is_text_plain])

# ---- the WSGI entry point: catch-all, 404, escaped welcome link --------------------------------------------------------------
cls('mapproxy.wsgiapp:MapProxyApp', fields=dict(handlers='opaque', base_config='opaque', cors_origin='opaque',
                                                handler_path_re='opaque'))


def _app_catch_all(ex, st, post, result):
    import z3
    from pyvc.values import eq, VStr, VInt
    handles = T.evs(st, 'handle')
    resps = T.evs(st, 'Response')
    wel = T.evs(st, 'welcome_response')
    esc = T.evs(st, 'escape_html')
    debug = None
    goal = z3.BoolVal(True)
    for i, h in handles:
        if h.raised:
            # the handler failed and we still return normally: only as the constant 500 document
            r = [e for j, e in resps if j > i]
            ok = len(r) == 1 and len(r[0].args) == 1 and getattr(r[0].args[0], 'conc', lambda: None)() == 'internal error'
            goal = z3.And(goal, z3.BoolVal(ok))
            if ok:
                goal = z3.And(goal, eq(r[0].kwargs.get('status'), VInt(500)))
    yield ('handler_exception_becomes_constant_500', goal,
           "non-debug mode: any exception from a service handler becomes the constant body 'internal error' with status 500 "
           '(no traceback, no message, no path in the response)')
    g2 = z3.BoolVal(True)
    for i, w in wel:
        g2 = z3.And(g2, z3.BoolVal(len(esc) == 1 and w.args[0] is esc[0][1].result))
    yield ('welcome_link_escaped', g2,
           'the script URL (built from Host / X-Forwarded-* headers) reaches the welcome page only through escape_html '
           '(which also removes quotes: the value is written into an href="..." attribute)')
    g3 = z3.BoolVal(True)
    for i, r in resps:
        a0 = getattr(r.args[0], 'conc', lambda: None)() if r.args else None
        if a0 == 'not found':
            g3 = z3.And(g3, eq(r.kwargs.get('status'), VInt(404)), eq(r.kwargs.get('mimetype'), VStr('text/plain')))
    yield ('unknown_path_is_404', g3, "unknown paths are answered 'not found', text/plain, 404")
    # whatever response object was chosen is what is sent: called with (environ, start_response)
    sent = T.evs(st, 'resp')
    ok = len(sent) == 1 and len(sent[0][1].args) == 2 and sent[0][1].args[0] is post.env['environ'] and result is sent[0][1].result
    if len(sent) == 1:
        from pyvc.values import opaque_is_none
        sr = sent[0][1].recv
        ok_h = [h for i, h in handles if not h.raised]
        bad_h = [h for i, h in handles if h.raised]
        own = [e for i, e in resps] + [e for i, e in wel]
        is_own = any(sr is e.result for e in own)
        path = ex.opaque_field(st, post.env.get('req') or st.env.get('req'), 'path') if (post.env.get('req') or st.env.get('req')) is not None else None
        if ok_h:
            none = opaque_is_none(ok_h[0].result.t)
            g4 = z3.If(none, z3.BoolVal(is_own), z3.BoolVal(sr is ok_h[0].result))
        elif bad_h:
            g4 = z3.BoolVal(is_own and not wel)
        else:
            g4 = z3.BoolVal(is_own)
        if wel and path is not None:
            g4 = z3.And(g4, z3.Or(path.t == z3.StringVal(''), path.t == z3.StringVal('/')))
        elif any(getattr(e.args[0], 'conc', lambda: None)() == 'not found' for i, e in resps) and path is not None:
            g4 = z3.And(g4, path.t != z3.StringVal(''), path.t != z3.StringVal('/'))
        yield ('handler_answer_is_passed_through', g4,
               "the answer of the matching service handler is sent unchanged; the application's own documents are used only "
               "when no handler answered: welcome page for '' and '/', 404 for every other path, constant 500 after a failure")
    known = [e for i, e in T.evs(st, 'contains') if len(e.args) == 2 and e.args[0] is st.heap[post.env['self'].ref]['handlers']]
    g5 = z3.BoolVal(len(known) <= 1 and len(handles) <= len(known))
    for e in known:
        g5 = z3.And(g5, ex.truth(st, e.result) == z3.BoolVal(len(handles) == 1))
        for i, h in handles:
            g5 = z3.And(g5, z3.BoolVal(len(h.args) == 1))
    yield ('request_goes_to_the_named_service', g5,
           'a request whose first path segment names a configured service is handled by that service (exactly once); any other '
           'is not handled by a service at all')
    yield ('response_object_is_sent', z3.BoolVal(bool(ok)),
           'the WSGI answer is resp(environ, start_response) of the response chosen above (handler result, 500, welcome or 404)')


contract('mapproxy.wsgiapp:MapProxyApp.__call__', props=['C18'],
         types=dict(environ='opaque', start_response='opaque'), returns='opaque', default_callee='opaque',
         opaque_fields={'debug_mode': 'bool', 'path': 'str'}, stable_fields=['debug_mode', 'path', 'script_url'],
         opaque_spec={'handle': {'raises': ['Exception']}, 'Response': {'pure': True}, 'escape_html': {'returns': 'str', 'pure': True},
                      'welcome_response': {'pure': True}, 'match': {'returns': 'opt[opaque]', 'pure': True}, 'group': {'pure': True},
                      'local_base_config': {'pure': True}, 'Request': {'pure': True}, 'print_exc': {'pure': True}, 'get': {'pure': True}},
         opaque=['Response', 'welcome_response', 'escape_html'],
         # an exception of a service handler leaves the application only in debug mode
         raises={'Exception': 'self.base_config.debug_mode'},
         loops={0: dict(inv=[], types={'req': 'opaque'})},
         trace=[_app_catch_all])


# ---- escape_html: character-level postcondition, BOUNDED (replace chains are undecided in both string solvers) ------------
def _gen_text(gen, rng):
    alphabet = ['<', '>', '&', '"', "'", 'a', ' ', '&amp;', '<script>', '\\', '/', '\n', 'x', '&lt;', '">', "'>"]
    return {'data': ''.join(rng.choice(alphabet) for _ in range(rng.randint(0, 12)))}


def _no_markup_chars(args, result):
    """escape_html output contains no <, >, quote characters and every & starts one of the three entities it writes"""
    import re
    return not re.search(r'[<>"\']', result) and all(result[m.start():].startswith(('&amp;', '&gt;', '&lt;')) for m in re.finditer('&', result))


contract('mapproxy.util.escape:escape_html', props=['C18'], verify=False, types=dict(data='str'), returns='str',
         ensures=[_no_markup_chars], fuzz_gen=_gen_text, bounded=dict(n=5000, seconds=8))


# ---- every service: a RequestError raised while parsing or handling becomes the rendered error document ---------------------------
def _request_error_rendered(ex, st, post, result):
    import z3
    rend = T.evs(st, 'render')
    raised = [e for e in st.trace if e.raised == 'RequestError']
    ok = (not raised and not rend) or (len(raised) == 1 and len(rend) == 1 and result is rend[0][1].result)
    yield ('request_error_becomes_its_document', z3.BoolVal(bool(ok)),
           'a RequestError from the request parser or from the handler never escapes: the answer is e.render(); without an '
           'error the handler result is returned unchanged')


cls('mapproxy.service.base:Server', fields={})
contract('mapproxy.service.base:Server.handle', props=['C18'],
         types=dict(req='opaque'), returns='opaque', default_callee='opaque',
         opaque_spec={'parse_request': {'raises': ['RequestError']}, 'handler': {'raises': ['RequestError']},
                      'getattr': {'pure': True}, 'render': {'pure': True}},
         opaque=['parse_request'],
         raises={},
         trace=[_request_error_rendered])


# ---- RequestError.render: delegates to the handler of the request; without one the raw message only leaves as text/plain;
# ---- error answers are never cacheable ------------------------------------------------------------------------------------------
def _error_answer(ex, st, post, result):
    import z3
    rend = T.evs(st, 'render')
    resp = T.evs(st, 'Response')
    ch = T.evs(st, 'cache_headers')
    src = [e for i, e in rend + resp]
    ok = len(src) == 1 and len(ch) == 1 and ch[0][1].recv is not None and ch[0][1].recv.t.eq(src[0].result.t) \
        and result.t.eq(src[0].result.t)
    yield ('one_answer_returned', z3.BoolVal(bool(ok)),
           'exactly one answer is produced (handler.render(self) or a plain Response) and it is the one returned')
    nc = ok and 'no_cache' in ch[0][1].kwargs and not ch[0][1].args
    goal = z3.BoolVal(bool(nc))
    if nc:
        goal = ex.truth(st, ch[0][1].kwargs['no_cache'])
    yield ('error_answers_are_not_cacheable', goal, 'cache_headers(no_cache=True) is applied to the answer before it is returned')
    plain = all(not (set(e.kwargs) & {'mimetype', 'content_type'}) for i, e in resp)
    yield ('raw_message_only_with_default_text_plain', z3.BoolVal(bool(plain)),
           'when no exception handler is attached the message is sent with the default content type (text/plain), never as markup')
    goal = z3.BoolVal(True)
    for i, e in resp:
        stt = ex.opaque_field_at(st, e, post.env['self'], 'status')
        got = e.kwargs.get('status')
        if got is None or not hasattr(stt, 'isnone'):
            goal = z3.BoolVal(False)
            break
        from pyvc.values import eq, VInt
        gi = got.val if hasattr(got, 'isnone') else got
        goal = z3.And(goal, z3.If(stt.isnone, eq(gi, VInt(500)), eq(gi, stt.val)))
        if hasattr(got, 'isnone'):
            goal = z3.And(goal, z3.Not(got.isnone))
    yield ('plain_answer_status', goal, 'without a handler the status is the one of the error, 500 when it has none')
    deleg = all(len(e.args) == 1 and e.args[0].t.eq(post.env['self'].t) for i, e in rend)
    yield ('handler_renders_this_error', z3.BoolVal(bool(deleg)), 'the handler is asked to render this very error')


contract(E_ + 'RequestError.render', props=['C18', 'C20'], types=dict(self='opaque'), returns='opaque', default_callee='opaque',
         opaque_fields={'request': 'opt[opaque]', 'status': 'opt[int]', 'msg': 'str'},
         opaque_spec={'render': {'pure': True}, 'Response': {'pure': True}, 'cache_headers': {'pure': True}},
         opaque=['Response'],
         trace=[_error_answer])


# ---- Response.__call__: a complete answer - status and headers sent once, length declared for the body that is sent ----------------
def _response_sent(ex, st, post, result):
    import z3
    from pyvc.values import eq, VInt
    sr = [(i, e) for i, e in T.evs(st, 'start_response')]
    ok = len(sr) == 1 and len(sr[0][1].args) == 2 and sr[0][0] == len(st.trace) - 1
    yield ('status_and_headers_sent_once_at_the_end', z3.BoolVal(bool(ok)),
           'start_response(status, headers) is called exactly once, after the body and its length are settled')
    seeks = [(i, e) for i, e in T.evs(st, 'seek')]
    tells = [(i, e) for i, e in T.evs(st, 'tell')]
    g = z3.BoolVal(len(tells) <= 1)
    if tells:
        i_t = tells[0][0]
        before = [e for i, e in seeks if i < i_t]
        after = [e for i, e in seeks if i > i_t]
        okk = len(before) == 1 and len(after) == 1 and len(before[0].args) == 2 and before[0].args[0].conc() == 0 and before[0].args[1].conc() == 2 \
            and len(after[0].args) == 1 and after[0].args[0].conc() == 0
        g = z3.And(g, z3.BoolVal(bool(okk)))
        h = st.heap[post.env['self'].ref]['headers']
    else:
        g = z3.And(g, z3.BoolVal(not seeks))
    if tells and bool(okk):
        sp = st.fork()
        sp.spec = True
        sp.env = dict(st.env, n=tells[0][1].result)
        try:
            g = z3.And(g, ex.truth(sp, ex.ev1(sp, ex.reg.parse_spec("self.headers['Content-length'] == str(n)"))))
        except Exception as e_:      # noqa
            g = z3.BoolVal(False)
    yield ('file_body_measured_and_rewound', g,
           'a seekable file body is measured (seek to EOF, tell), Content-length is set to that position, and the body is rewound to '
           'the start before it is handed to the server')


def _response_body_kind(ex, st, post, result):
    import z3
    from pyvc.values import ObjSort, VSeq, VStr, eq
    sr = [e for i, e in T.evs(st, 'start_response')]
    stt = [e for i, e in T.evs(st, 'status', 'Response.status')]
    fh = [e for i, e in T.evs(st, 'fixed_headers', 'Response.fixed_headers')]
    ok = len(sr) == 1 and len(fh) == 1 and len(sr[0].args) == 2 and sr[0].args[1] is fh[0].result
    g0 = z3.BoolVal(bool(ok))
    if ok:
        g0 = z3.And(g0, eq(sr[0].args[0], st.heap[post.env['self'].ref]['_status']))
    yield ('sent_status_and_headers_are_its_own', g0, 'start_response(self.status, self.fixed_headers), in this order')
    wrap = [e for e in st.trace if 'file_wrapper' in e.name]
    for e in wrap:
        yield ('file_wrapper_gets_the_body', z3.BoolVal(len(e.args) == 2 and result is e.result) if not hasattr(e.args[0], 't') else
               z3.And(z3.BoolVal(len(e.args) == 2 and result is e.result), e.args[0].t == post.old.heap[post.env['self'].ref]['response'].t),
               "with a server file wrapper the answer is environ['wsgi.file_wrapper'](the body, block_size)")
    r0 = post.old.heap[post.env['self'].ref]['response'] if getattr(post, 'old', None) is not None else None
    if r0 is None or not hasattr(r0, 't'):
        return
    ha = lambda n: z3.Function('opaque_hasattr_' + n, ObjSort, z3.BoolSort())(r0.t)     # noqa
    readable = ha('read')
    tells = [e for i, e in T.evs(st, 'tell')]
    fw = [e for i, e in T.evs(st, 'getitem') if False]
    may_seek = z3.Or(z3.Not(ha('ok_to_seek')), ex.truth(st, ex.opaque_field(post.old, r0, 'ok_to_seek')))
    g = z3.BoolVal(bool(tells)) == z3.And(readable, may_seek, ha('seek'), ha('tell'))
    yield ('length_measured_exactly_for_seekable_files', g,
           'the body is measured exactly when it is a file object (has read) that may be seeked (no ok_to_seek veto) and has seek and tell')
    enc = [e for i, e in T.evs(st, 'encode')]
    g2 = z3.Implies(readable, z3.BoolVal(not enc))
    is_str = z3.Function('opaque_isinstance_str', ObjSort, z3.BoolSort())(r0.t)
    truthy = ex.truth(post.old, r0)
    yield ('text_body_is_encoded', z3.BoolVal(len(enc) == 1) == z3.And(z3.Not(readable), truthy, is_str),
           'exactly a non-empty text body is encoded (with the charset of the response) before it is sent')
    yield ('file_body_is_streamed_not_converted', g2, 'a file body is handed over as a stream (file wrapper or block iterator), never encoded')


contract('mapproxy.response:Response.__call__', props=['C18'],
         types=dict(environ='opaque', start_response='opaque'), returns='opaque', default_callee='opaque',
         opaque_spec={'seek': {'pure': True}, 'tell': {'returns': 'int', 'pure': True}, 'start_response': {'pure': True},
                      'encode': {'pure': True}, 'iter': {'pure': True}, 'fixed_headers': {'pure': True}, 'status': {'pure': True}},
         opaque=['fixed_headers', 'status'],
         opaque_fields={'ok_to_seek': 'opaque'}, stable_fields=['ok_to_seek'],
         trace=[_response_sent, _response_body_kind])


# ---- demo pages: request parameters reach the HTML/JS templates only through escape_html -------------------------------------------
def _subterms18(t):
    import z3
    yield t
    if z3.is_app(t):
        for c in t.children():
            for x in _subterms18(c):
                yield x


def _terms_of(v):
    out = []
    if hasattr(v, 't'):
        out.append(v.t)
    if hasattr(v, 'val'):
        out += _terms_of(v.val)
    if getattr(v, 'items', None):
        for x in v.items:
            out += _terms_of(x)
    return out


def _only_escaped_request_text(ex, st, post, result):
    """taint propagation over the event trace: everything computed from `req` is request-derived, the result of any call that
    takes a request-derived argument is request-derived as well - except escape_html, the sanitiser"""
    import z3
    req = post.env['req']
    tainted = [req.t]

    def term_tainted(t):
        if any(t.eq(x) for x in tainted):
            return True
        if z3.is_app(t) and t.num_args() > 0:
            # an entry looked up in a mapping is as trustworthy as the MAPPING (a configured layer selected by a request
            # parameter is a configured object, not request text)
            if t.decl().name().startswith(('opaque_item2_', 'opaque_item_')):
                return term_tainted(t.arg(0))
            return any(term_tainted(c) for c in t.children())
        return False

    def is_tainted(v):
        return any(term_tainted(t) for t in _terms_of(v))
    bad = []
    subs = [e for i, e in T.evs(st, 'substitute')]
    for e in st.trace:
        if e.name == 'substitute':
            for k, v in e.kwargs.items():
                if is_tainted(v):
                    bad.append(k)
            continue
        args = list(e.args) + list(e.kwargs.values()) + ([e.recv] if e.recv is not None else [])
        if e.name != 'escape_html' and e.result is not None and any(is_tainted(a) for a in args):
            tainted += _terms_of(e.result)
    yield ('template_gets_request_text_only_escaped', z3.BoolVal(len(subs) == 1 and not bad),
           'no template variable is computed from the request (req.args, ...) except through escape_html: a value derived from a '
           'request parameter by any other route - parsed, looked up, re-formatted - does not reach the page')


cls('mapproxy.service.demo:DemoServer', fields=dict(layers='opaque', tile_layers='opaque', image_formats='opaque', layer_srs='opaque',
                                                   background='opaque', services='opaque', restful_template='opaque', md='opaque'))
for _fn in ('_render_wms_template', '_render_tms_template', '_render_wmts_template'):
    contract('mapproxy.service.demo:DemoServer.' + _fn, props=['C18'],
             types=dict(template='opaque', req='opaque'), returns='opaque', default_callee='opaque',
             opaque_spec={'escape_html': {'returns': 'str', 'pure': True}, 'get_template': {'pure': True}, 'SRS': {'pure': True},
                          'bbox_for': {'returns': 'tuple[real,real,real,real]', 'pure': True}, 'base_config': {'pure': True},
                          'substitute': {'pure': True}, 'values': {'returns': 'list[opaque]', 'pure': True},
                          'replace': {'pure': True}, 'append': {'pure': True}},
             opaque=['escape_html', 'get_template'],
             opaque_fields={'tile_sets': 'list[tuple[opaque,opaque]]'}, stable_fields=['tile_sets'],
             raises={'UnboundLocalError': True, 'KeyError': True},
             loops={0: dict(inv=[], types={'tile_layer': 'opaque', 'wmts_layer': 'opaque'}), 1: dict(inv=[], types={'res': 'opaque'})},
             trace=[_only_escaped_request_text])


# ---- Request.host: total for every Host header (it is evaluated OUTSIDE the catch-all when the welcome page is built) ------------------
cls('mapproxy.request.base:Request', fields=dict(environ='dict[str,str]'))
contract('mapproxy.request.base:Request.host', props=['C18'],
         types={}, returns='str', default_callee='opaque',
         # keys the WSGI server always provides (PEP 3333)
         requires=["'SERVER_NAME' in self.environ and 'SERVER_PORT' in self.environ and 'wsgi.url_scheme' in self.environ"],
         opaque_spec={'url_scheme': {'returns': 'str', 'pure': True}},
         opaque=['url_scheme'],
         ensures=["implies('HTTP_X_FORWARDED_HOST' not in self.environ and 'HTTP_HOST' in self.environ and ':' not in self.environ['HTTP_HOST'], "
                  "result == self.environ['HTTP_HOST'])"],
         raises={})


# ---- in-image exceptions: the error is drawn into an image of the requested size and declared with a media type ------------------------
def _inimage_answer(ex, st, post, result):
    import z3
    from pyvc.values import eq, VNone, VStr
    err = post.env['request_error']
    mi = [e for i, e in T.evs(st, 'message_image')]
    resp = [e for i, e in T.evs(st, 'Response')]
    ab = [e for i, e in T.evs(st, 'as_buffer')]
    ok = len(mi) == 1 and len(resp) == 1 and len(ab) == 1 and ab[0].recv is not None and ab[0].recv.t.eq(mi[0].result.t) \
        and resp[0].args[0] is ab[0].result and result is resp[0].result and 'content_type' in resp[0].kwargs
    yield ('error_is_drawn_into_the_answer', z3.BoolVal(bool(ok)),
           'the answer body is the encoded message image (the error text only ever appears as pixels)')
    if not ok:
        return
    ct = resp[0].kwargs['content_type']
    io = [e for i, e in T.evs(st, 'ImageOptions')]
    ff = [e for i, e in T.evs(st, 'filter_format')]
    t = getattr(ct, 't', None)
    ok_ct = t is not None and len(io) == 1 and len(ff) == 1 and mi[0].kwargs.get('image_opts') is io[0].result
    g = z3.BoolVal(bool(ok_ct))
    if ok_ct:
        # 'image/' + <format the image was encoded with, lower case>: never the raw FORMAT parameter
        fa = ff[0].args[0]
        from_opts = hasattr(fa, 't') and any(x.eq(io[0].result.t) for x in _subterms18(fa.t))
        made = hasattr(ff[0].result, 't') and any(x.eq(ff[0].result.t) for x in _subterms18(t))
        g = z3.And(z3.BoolVal(bool(from_opts and made)), z3.PrefixOf(z3.StringVal('image/'), t) if z3.is_string(t) else z3.BoolVal(False))
    yield ('declared_type_is_a_media_type', g,
           "the declared Content-type of an in-image error is 'image/' + the (normalised, lower-case) format of the image options the "
           'picture is encoded with - a media type of its own making, never the FORMAT parameter echoed into the header')
    size = mi[0].kwargs.get('size')
    g2 = z3.BoolVal(size is not None)
    if size is not None:
        req_size = ex.opaque_field_at(st, mi[0], ex.opaque_field_at(st, mi[0], ex.opaque_field_at(st, mi[0], err, 'request'), 'params'), 'size')
        s_ = size.val if hasattr(size, 'isnone') else size
        if hasattr(req_size, 'isnone') and getattr(s_, 'items', None) and len(s_.items) == 2:
            g2 = z3.And(g2, z3.If(req_size.isnone, z3.And(s_.items[0].t == 256, s_.items[1].t == 256),
                                  z3.And(s_.items[0].t == req_size.val.items[0].t, s_.items[1].t == req_size.val.items[1].t)))
        else:
            g2 = z3.BoolVal(False)
    yield ('error_image_has_a_size', g2, 'the message image is created with the requested size (256x256 when the request has none)')


cls('mapproxy.request.wms.exception:WMSImageExceptionHandler', fields={})
contract('mapproxy.request.wms.exception:WMSImageExceptionHandler.render', props=['C18'],
         types=dict(request_error='opaque'), returns='opaque', default_callee='opaque',
         opaque_fields={'request': 'opaque', 'params': 'opaque', 'format': 'opaque', 'size': 'opt[tuple[int,int]]', 'format_mime_type': 'opt[str]',
                        'msg': 'opaque'},
         stable_fields=['request', 'params', 'format', 'size', 'format_mime_type', 'msg'],
         opaque_spec={'_bgcolor': {'pure': True}, 'ImageOptions': {'pure': True}, 'message_image': {'pure': True}, 'as_buffer': {'pure': True},
                      'Response': {'pure': True}, 'contains': {'returns': 'bool', 'pure': True}, 'lower': {'pure': True},
                      'filter_format': {'returns': 'str', 'pure': True}},
         opaque=['_bgcolor', 'Response', 'filter_format'],
         trace=[_inimage_answer])



# ---- xml_text: dataflow proved (trace clause above); character-level postcondition BOUNDED (regular expression + replace chain) -------------------------------------------
def _gen_xml_text(gen, rng):
    alphabet = ['<', '>', '&', '"', "'", 'a', ' ', '\x00', '\x01', '\x08', '\x0b', '\x0c', '\x0e', '\x1f', '\t', '\n', '\r', '\x7f', '\ufffe', '\uffff',
                '\u00e9', '&amp;', ']]>', 'unknown layer: ']
    # (long messages too: an answer that is cut or padded beyond some length must not escape the search)
    n = rng.choice([rng.randint(0, 14)] * 6 + [200, 260, 300, 340, 1023, 1024, 1025, 2100, 4099, 8200])
    return {'msg': ''.join(rng.choice(alphabet) for _ in range(n))}


def _xml_text_is_wellformed_chardata(args, result):
    """xml_text(msg): no character that XML 1.0 forbids, no raw markup character; it is html.escape of msg without the forbidden ones"""
    import html
    ok_char = lambda c: c in '\t\n\r' or (0x20 <= ord(c) <= 0xd7ff) or (0xe000 <= ord(c) <= 0xfffd) or ord(c) >= 0x10000     # noqa
    kept = ''.join(c for c in args['msg'] if ok_char(c))
    return all(ok_char(c) for c in result) and result == html.escape(kept) and '<' not in result and '>' not in result


contract('mapproxy.exception:xml_text', props=['C18'], types=dict(msg='str'), returns='str', default_callee='opaque',
         opaque_spec={'escape': {'returns': 'str', 'pure': True}, 'sub': {'returns': 'str', 'pure': True}},
         opaque=['escape'],
         # proved for every message: the result is the escape call's own result (html.escape and re.sub are trusted library calls);
         trace=[_xml_text_is_whole_escape],
         # what the two library calls amount to is checked on the real function, bounded
         ensures=[_xml_text_is_wellformed_chardata], fuzz_gen=_gen_xml_text, bounded=dict(n=5000, seconds=8))


# ---- CGI sources: what a failing start of the script may tell the client ---------------------------------------------------------------
cls('mapproxy.client.cgi:CGIClient', fields=dict(script='opaque', working_directory='opaque', no_headers='opaque'))


def _cgi_error_text_is_fixed(ex, st, post, exc):
    import z3
    from pyvc.values import VStr
    a = list(exc.args or ())
    ok = len(a) == 1 and isinstance(a[0], VStr) and a[0].conc() is not None
    yield ('cgi_error_text_is_a_constant', z3.BoolVal(bool(ok)),
           'the SourceError raised when the CGI script cannot be started has a fixed text: the path of the script (a file-system '
           'path of the server) is not part of the message that the error documents show')


contract('mapproxy.client.cgi:CGIClient.open', props=['C18'],
         types=dict(url='opaque', data='none'), returns='opaque', default_callee='opaque',       # POST is refused by an assert
         opaque_spec={'Popen': {'raises': ['OSError']}, 'communicate': {'returns': 'tuple[opaque,opaque]'}, 'wait': {'returns': 'int'},
                      'split_cgi_response': {'returns': 'tuple[opaque,opaque]', 'pure': True}, 'len': {'returns': 'int', 'pure': True}},
         opaque=['split_cgi_response'],
         raises={'SourceError': True, 'HTTPClientError': True, 'OSError': True},
         raises_ensures={'SourceError': [_cgi_error_text_is_fixed]})
