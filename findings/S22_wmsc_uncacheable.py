"""
C20 / defect 3: WMS-C (WMS GetMap with TILED=true) ignores that a tile is not
cacheable.

WMSServer.map tests `isinstance(result.cacheable, CacheInfo)` - true for every
tile, also for CacheInfo(cacheable=False) of an upstream error that on_error
maps to an uncached fill image - and calls cache_headers(None, (None, None),
max_age) + make_conditional, and only afterwards adds the no-cache headers.
The uncached error tile is sent with ETag md5("NoneNone"),
'Cache-control: public, max-age=...' AND 'Cache-Control: no-cache, no-store'
(two contradicting headers, dict keys differ in case), and a request carrying
that ETag is answered 304 although nothing is stored at all.
(TMS got this check long ago, WMTS/KML in 4acc6c2; WMS-C was left out.)
"""
import os
import shutil
import sys
import tempfile
import threading
import time
from io import BytesIO
from http.server import BaseHTTPRequestHandler, HTTPServer
from urllib.parse import urlparse, parse_qs

sys.path.insert(0, os.getcwd())

from PIL import Image  # noqa: E402
from webtest import TestApp  # noqa: E402
from mapproxy.wsgiapp import make_wsgi_app  # noqa: E402


def png(color, size):
    buf = BytesIO()
    Image.new('RGB', size, color).save(buf, 'png')
    return buf.getvalue()


class Upstream(object):
    """Local stand-in for the upstream WMS: answers every GetMap with a
    single-colour PNG of the requested size, or with an HTTP error."""

    def __init__(self):
        self.status = 200
        self.color = (10, 20, 30)
        self.count = 0
        up = self

        class Handler(BaseHTTPRequestHandler):
            def do_GET(self):
                up.count += 1
                query = parse_qs(urlparse(self.path).query)
                q = dict((k.lower(), v[0]) for k, v in query.items())
                size = (int(q.get('width', 256)), int(q.get('height', 256)))
                if up.status == 200:
                    body, ctype = png(up.color, size), 'image/png'
                else:
                    body, ctype = b'upstream error', 'text/plain'
                self.send_response(up.status)
                self.send_header('Content-type', ctype)
                self.send_header('Content-length', str(len(body)))
                self.end_headers()
                self.wfile.write(body)

            def log_message(self, *args):
                pass

        self.server = HTTPServer(('127.0.0.1', 0), Handler)
        self.port = self.server.server_address[1]
        thread = threading.Thread(target=self.server.serve_forever)
        thread.daemon = True
        thread.start()

    def close(self):
        self.server.shutdown()
        self.server.server_close()


CONF = """
globals:
  cache:
    base_dir: %(base)s/cache_data
%(globals_extra)s
services:
  tms:
  wmts:
    restful: true
    kvp: true
  kml:
  wms:
layers:
  - name: lyr
    title: Layer
    sources: [c]
caches:
  c:
    grids: [GLOBAL_MERCATOR]
    format: image/png
    sources: [src]
%(cache_extra)s
sources:
  src:
    type: wms
    req:
      url: http://127.0.0.1:%(port)d/service
      layers: bar
    on_error:
      404:
        response: '#ff0000'
        cache: False
"""

SINGLE_TILES = "    meta_size: [1, 1]\n    meta_buffer: 0\n"


def make_app(base, port, globals_extra='', cache_extra=''):
    conf = os.path.join(base, 'mapproxy.yaml')
    with open(conf, 'w') as f:
        f.write(CONF % dict(base=base, port=port, globals_extra=globals_extra,
                            cache_extra=cache_extra))
    return TestApp(make_wsgi_app(conf))


def pixel(resp):
    if not resp.body:
        return None
    return Image.open(BytesIO(resp.body)).convert('RGB').getpixel((5, 5))


def cache_headers(resp):
    return [(k, v) for k, v in resp.headers.items()
            if k.lower() in ('etag', 'last-modified', 'cache-control', 'pragma', 'expires')]


def show(tag, resp):
    print('%-34s %s body=%d bytes pixel=%s\n%36s%s' % (
        tag, resp.status, len(resp.body), pixel(resp), '', cache_headers(resp)))


def main():
    problems = []
    up = Upstream()
    base = tempfile.mkdtemp(prefix='c20_3_')
    try:
        app = make_app(base, up.port, globals_extra=SINGLE_TILES)
        url = ('/service?SERVICE=WMS&VERSION=1.1.1&REQUEST=GetMap&LAYERS=lyr&STYLES='
               '&SRS=EPSG:900913&BBOX=0,0,20037508.342789244,20037508.342789244'
               '&WIDTH=256&HEIGHT=256&FORMAT=image/png&TILED=true')

        up.status = 404
        r_tms = app.get('/tms/1.0.0/lyr/0/1/1.png')
        show('TMS  error tile (reference)', r_tms)
        r1 = app.get(url)
        show('WMS-C error tile', r1)
        cc = [v for k, v in r1.headers.items() if k.lower() == 'cache-control']
        if pixel(r1) != (255, 0, 0):
            problems.append('setup problem: expected the red on_error fill image')
        if len(cc) != 1 or 'no-store' not in cc[0] or 'public' in cc[0] or 'max-age' in cc[0]:
            problems.append('uncached error tile sent with Cache-control headers %r' % (cc,))
        print('   validators on the uncached error tile: ETag=%r Last-modified=%r'
              % (r1.headers.get('ETag'), r1.headers.get('Last-modified')))

        # a client revalidating with what it was given
        etag = r1.headers.get('ETag', 'c7485dcc8d256a6f197ed7802687f252')  # md5("NoneNone")
        r2 = app.get(url, headers={'If-None-Match': etag})
        show('WMS-C error tile, If-None-Match', r2)
        if r2.status_int == 304:
            problems.append('304 for If-None-Match %s although no tile is stored '
                            '(the answer is an uncached error image)' % etag)

        # the upstream recovers: the client that revalidates must get the real tile
        up.status = 200
        r3 = app.get(url, headers={'If-None-Match': etag})
        show('WMS-C upstream ok, If-None-Match', r3)
        if r3.status_int == 304:
            problems.append('304 for the error-tile ETag after the real tile was stored')

        cached_files = [f for _, _, fs in os.walk(os.path.join(base, 'cache_data'))
                        for f in fs if f.endswith('.png')]
        print('   tiles in cache: %d' % len(cached_files))
    finally:
        up.close()
        shutil.rmtree(base, ignore_errors=True)

    print()
    if problems:
        print('PROPERTY C20 VIOLATED:')
        for p in problems:
            print('  - ' + p)
        return 1
    print('OK: no violation')
    return 0


if __name__ == '__main__':
    sys.exit(main())
