"""
C08 - the re-check under the tile lock looks at the caller's pre-lock copy of the tile.

TileCreator._create_single_tile (caches without meta tiles: tile sources, meta_size [1, 1])
re-checks `is_cached(tile)` under the lock with the *same Tile object* that was filled by
`cache.load_tiles()` before the lock was taken.  For a tile that is in the cache but expired
(`refresh_before`) this object already carries the old bytes, and every database cache
(sqlite/MBTilesLevelCache, also s3/azureblob/couchdb) answers is_cached()/load_tile_metadata()
for a tile that has bytes without looking into the cache again.  The re-check therefore can never
see that another request refreshed the tile in the meantime - and since TileManager.is_cached()
clears the timestamp of the expired copy, the re-check now even fails with
`TypeError: int() argument must be ... not 'NoneType'`.

Configuration: `cache: {type: sqlite}` + `refresh_before` + a tile source.
 phase 1: one request for an expired tile                -> must be answered with the refreshed picture
 phase 2: four concurrent requests for one expired tile  -> four times the refreshed picture,
                                                            ONE upstream request
run:  cd /tmp/wt/hunt/C08 && /venv/bin/python demo.py
"""
import io
import logging
import os
import shutil
import sqlite3
import sys
import tempfile
import threading
from http.server import BaseHTTPRequestHandler, ThreadingHTTPServer

sys.path.insert(0, os.getcwd())

from PIL import Image  # noqa: E402
from webtest import TestApp  # noqa: E402
from mapproxy.wsgiapp import make_wsgi_app  # noqa: E402
from mapproxy.cache.base import TileLocker  # noqa: E402

N_CLIENTS = 4

upstream_calls = []
upstream_mutex = threading.Lock()
hold_upstream = threading.Event()   # phase 2: the first upstream request waits for this
hold_upstream.set()

# observation only: count how many requests have reached the tile lock
lock_calls = []
_orig_lock = TileLocker.lock


def _counting_lock(self, tile):
    lock_calls.append(tile.coord)
    if len(lock_calls) >= N_CLIENTS:
        hold_upstream.set()
    return _orig_lock(self, tile)


def version_color(n):
    return (n * 50, 0, 0)


class Upstream(BaseHTTPRequestHandler):
    def do_GET(self):
        with upstream_mutex:
            upstream_calls.append(self.path)
            n = len(upstream_calls)
        # keep the lock holder busy until all other clients wait for the lock (at most 5 s)
        hold_upstream.wait(5)
        buf = io.BytesIO()
        Image.new('RGB', (256, 256), version_color(n)).save(buf, 'png')
        body = buf.getvalue()
        self.send_response(200)
        self.send_header('Content-type', 'image/png')
        self.send_header('Content-length', str(len(body)))
        self.end_headers()
        self.wfile.write(body)

    def log_message(self, *args):
        pass


CONFIG = """
services:
  tms:

layers:
  - name: osm
    title: tiles
    sources: [osm_cache]

caches:
  osm_cache:
    grids: [GLOBAL_WEBMERCATOR]
    sources: [osm_tiles]
    format: image/png
    refresh_before:
      hours: 1
    cache:
      type: sqlite

sources:
  osm_tiles:
    type: tile
    grid: GLOBAL_WEBMERCATOR
    url: http://127.0.0.1:%(port)d/%%(z)s/%%(x)s/%%(y)s.png

globals:
  cache:
    base_dir: %(base)s/cache_data
"""

TILE_URL = '/tms/1.0.0/osm/EPSG3857/1/0/0.png'


def expire_stored_tiles(base):
    """The stored tiles were written long ago."""
    n = 0
    for root, _dirs, files in os.walk(os.path.join(base, 'cache_data')):
        for name in files:
            if name.endswith('.mbtile'):
                db = sqlite3.connect(os.path.join(root, name))
                n += db.execute("UPDATE tiles SET last_modified = '2000-01-01 00:00:00'").rowcount
                db.commit()
                db.close()
    assert n == 1, 'expected exactly one stored tile, found %d' % n


def get(app, results, key):
    try:
        resp = app.get(TILE_URL, expect_errors=True)
        color = None
        if resp.status_int == 200:
            color = Image.open(io.BytesIO(resp.body)).convert('RGB').getpixel((10, 10))
        results[key] = (resp.status_int, color)
    except Exception as ex:
        results[key] = ('%s: %s' % (type(ex).__name__, ex), None)


def main():
    logging.disable(logging.CRITICAL)   # tracebacks of the 500s are summarised below
    base = tempfile.mkdtemp(prefix='c08_recheck_')
    httpd = ThreadingHTTPServer(('127.0.0.1', 0), Upstream)
    threading.Thread(target=httpd.serve_forever, daemon=True).start()
    problems = []
    TileLocker.lock = _counting_lock
    try:
        conf = os.path.join(base, 'mapproxy.yaml')
        with open(conf, 'w') as f:
            f.write(CONFIG % dict(port=httpd.server_address[1], base=base))
        app = TestApp(make_wsgi_app(conf))

        # --- fill the cache -------------------------------------------------------------
        res = {}
        get(app, res, 'fill')
        print('fill        : %s, upstream requests so far: %d' % (res['fill'], len(upstream_calls)))
        assert res['fill'] == (200, version_color(1)), res
        assert len(upstream_calls) == 1

        # --- phase 1: one request for the expired tile ------------------------------------
        expire_stored_tiles(base)
        get(app, res, 'single')
        print('phase 1     : %s, upstream requests so far: %d' % (res['single'], len(upstream_calls)))
        if res['single'][0] != 200:
            problems.append('phase 1: the request for an expired tile is answered with %s instead of '
                            'the refreshed tile' % (res['single'][0],))
        elif res['single'][1] != version_color(len(upstream_calls)) or len(upstream_calls) != 2:
            problems.append('phase 1: expected the picture of upstream request 2, got %s after %d '
                            'upstream requests' % (res['single'][1], len(upstream_calls)))

        # --- phase 2: concurrent requests for the expired tile ------------------------------
        if len(upstream_calls) < 2:
            # phase 1 did not refresh anything; the stored tile is still the expired one
            pass
        else:
            expire_stored_tiles(base)
        before = len(upstream_calls)
        del lock_calls[:]
        hold_upstream.clear()
        threads = [threading.Thread(target=get, args=(app, res, i)) for i in range(N_CLIENTS)]
        for t in threads:
            t.start()
        for t in threads:
            t.join()
        hold_upstream.set()
        fetched = len(upstream_calls) - before
        print('phase 2     : %d concurrent clients, %d upstream request(s)' % (N_CLIENTS, fetched))
        for i in range(N_CLIENTS):
            print('   client %d : %s' % (i, res[i]))
        failed = [i for i in range(N_CLIENTS) if res[i][0] != 200]
        if failed:
            problems.append('phase 2: %d of %d concurrent requests for the expired tile got no picture '
                            '(%s)' % (len(failed), N_CLIENTS, res[failed[0]][0]))
        if fetched != 1:
            problems.append('phase 2: the upstream was asked %d times for one tile by %d concurrent '
                            'requests (expected once)' % (fetched, N_CLIENTS))
        else:
            wrong = [i for i in range(N_CLIENTS) if res[i][0] == 200 and
                     res[i][1] != version_color(len(upstream_calls))]
            if wrong:
                problems.append('phase 2: clients %s got a picture that is not the refreshed tile'
                                % wrong)
    finally:
        TileLocker.lock = _orig_lock
        hold_upstream.set()
        httpd.shutdown()
        httpd.server_close()
        shutil.rmtree(base, ignore_errors=True)

    if problems:
        print('\nPROPERTY C08 VIOLATED (every response contains the correct image, upstream asked once '
              'per tile):')
        for p in problems:
            print(' -', p)
        return 1
    print('\nOK: the re-check under the lock sees the tile that was refreshed by the lock holder')
    return 0


if __name__ == '__main__':
    sys.exit(main())
