"""Sidecar contracts for mapproxy.  PROP_MODULES: which contract modules carry obligations of which property."""

PROP_MODULES = {
    'C03': ['contracts.builders', 'contracts.shared_grid', 'contracts.c03_grid'],
    'C04': ['contracts.builders', 'contracts.shared_grid', 'contracts.c03_grid', 'contracts.c04_meta', 'contracts.c08_creator'],
    'C08': ['contracts.builders', 'contracts.shared_grid', 'contracts.c03_grid', 'contracts.c04_meta', 'contracts.c08_creator'],
}

# semantics assumed by the encoding (DESIGN.md section 2.4), reported in every evidence file
ASSUMPTIONS = [
    'A-int: Python int operations are mathematical integers (exact); // and % follow Python floor semantics',
    'A-real: every float is a real number; + - * / exact; floor/ceil/int() mathematical; round(x,n)=x+e, |e|<=0.5*10^-n. '
    'Nothing is claimed about IEEE-754 rounding.',
    'A-alias: distinct parameters denote distinct objects; lists/dicts are not aliased between two live names; '
    'no other thread mutates the objects during the call',
    'A-gen-eager: generator bodies are executed eagerly at the call (no interleaving with the consumer)',
    'pyvc itself (AST -> SMT encoding of the Python subset) is trusted; cross-checked by replaying counter-models '
    'and by the mutation self-test',
    'log.*(...) / print(...) calls and docstrings are dropped (assumed effect-free)',
]
PROP_ASSUMPTIONS = {}
NOT_COVERED = {}

NOT_APPLICABLE = {
    'C07': 'mutual exclusion of file locks is a property of interleavings of open/flock/unlink across OS processes; '
           'no pre/postcondition on a single call expresses it and no concurrent program logic for Python is '
           'available (DESIGN.md section 6, C07)',
}

MANIFEST_META = {
    'C03': dict(
        text='Proof (all grids, all levels, all coordinates, no bound) that the real grid.py functions meet contracts '
             'taken from the property text: tile() contains its point, tile_bbox edges are the exact affine edges '
             '(neighbours share edges), flip is an involution that preserves the ground rectangle when '
             'supports_access_with_origin offers it, affected-tile lists are the full block row by row from the top '
             'with no merely-touching tile and None outside the grid, closest_level implements the stated level '
             'choice (unbounded loop invariant), _calc_grids sizes. Floats are modelled as reals.',
        note='floats as exact reals (IEEE rounding not covered; round(x,12) as a +-5e-13 perturbation); pyvc encoding '
             'trusted; TileGrid.__init__ establishing grid_wf (other than grid sizes) and strictly decreasing '
             'resolutions are assumed; closest_level proved for grids without threshold_res; known finding S11'),
}
