"""C03 - tile grids tile the plane: contracts on mapproxy.grid (also used by C01, C02, C04, C16)."""
from pyvc.api import contract, loop, ghost, lemma
from . import shared_grid  # noqa
G = 'mapproxy.grid:'

# exact (real-arithmetic) edges of tile (x, y, z) of grid g -- the oracle every tile_bbox user is held to
ghost('tb_x0', ['g', 'x', 'z'], "g.bbox[0] + x * g.resolutions[z] * g.tile_size[0]")
ghost('tb_x1', ['g', 'x', 'z'], "g.bbox[0] + (x + 1) * g.resolutions[z] * g.tile_size[0]")
ghost('tb_y0', ['g', 'y', 'z'], """(g.bbox[3] - (y + 1) * g.resolutions[z] * g.tile_size[1]) if g.flipped_y_axis
                                   else (g.bbox[1] + y * g.resolutions[z] * g.tile_size[1])""")
ghost('tb_y1', ['g', 'y', 'z'], """(g.bbox[3] - y * g.resolutions[z] * g.tile_size[1]) if g.flipped_y_axis
                                   else (g.bbox[1] + (y + 1) * g.resolutions[z] * g.tile_size[1])""")

# exact point -> tile index functions (the oracle for tile())
ghost('col_of', ['g', 'x', 'z'], "floor((x - g.bbox[0]) / (g.resolutions[z] * g.tile_size[0]))")
ghost('row_of', ['g', 'y', 'z'], """floor((g.bbox[3] - y) / (g.resolutions[z] * g.tile_size[1])) if g.flipped_y_axis
                                    else floor((y - g.bbox[1]) / (g.resolutions[z] * g.tile_size[1]))""")

contract(G + 'TileGrid.flip_tile_coord', props=['C03', 'C02'],
         types=dict(tile_coord='tuple[int,int,int]'), returns='tuple[int,int,int]',
         requires=['grid_wf(self)', 'valid_level(self, tile_coord[2])'],
         ensures=['result[0] == tile_coord[0] and result[2] == tile_coord[2]',
                  'result[1] == self.grid_sizes[tile_coord[2]][1] - 1 - tile_coord[1]',
                  # in-grid tiles stay in the grid
                  'implies(0 <= tile_coord[1] < self.grid_sizes[tile_coord[2]][1], 0 <= result[1] < self.grid_sizes[tile_coord[2]][1])'],
         must_fail='result[1] == tile_coord[1]')

lemma('flip_involution', ['C03', 'C02'], doc='flip(flip(t)) == t for every grid height',
      fn=lambda z3: ([], z3.ForAll([z3.Int('gh'), z3.Int('y')], z3.Int('gh') - 1 - (z3.Int('gh') - 1 - z3.Int('y')) == z3.Int('y'))))

contract(G + 'TileGrid.tile_bbox', props=['C03', 'C01', 'C02', 'C04'],
         types=dict(tile_coord='tuple[int,int,int]', limit='bool'), returns='tuple[real,real,real,real]',
         requires=['grid_wf(self)', 'valid_level(self, tile_coord[2])', 'limit == False'],
         ensures=[
             'abs(result[0] - tb_x0(self, tile_coord[0], tile_coord[2])) <= 1e-12',
             'abs(result[2] - tb_x1(self, tile_coord[0], tile_coord[2])) <= 2e-12',
             'abs(result[1] - tb_y0(self, tile_coord[1], tile_coord[2])) <= 2e-12',
             'abs(result[3] - tb_y1(self, tile_coord[1], tile_coord[2])) <= 2e-12',
         ],
         must_fail='result[0] == self.bbox[0]')

contract(G + 'TileGrid.tile', props=['C03'],
         types=dict(x='real', y='real', level='int'), returns='tuple[int,int,int]',
         requires=['grid_wf(self)', 'valid_level(self, level)'],
         ensures=[
             'result[0] == col_of(self, x, level) and result[1] == row_of(self, y, level) and result[2] == level',
             # the tile found for a point contains that point (half open, exact arithmetic)
             'tb_x0(self, result[0], level) <= x and x < tb_x1(self, result[0], level)',
             'implies(not self.flipped_y_axis, tb_y0(self, result[1], level) <= y and y < tb_y1(self, result[1], level))',
             'implies(self.flipped_y_axis, tb_y0(self, result[1], level) < y and y <= tb_y1(self, result[1], level))',
         ],
         must_fail='result[0] == 0')

contract(G + 'TileGrid.limit_tile', props=['C16', 'C03', 'C09'],
         types=dict(tile_coord='tuple[int,int,int|str]'), returns='opt[tuple[int,int,int]]',
         requires=['grid_wf(self)'],
         ensures=[
             """iff(result is not None,
                    level_ok(self, tile_coord[2]) and 0 <= tile_coord[0] < self.grid_sizes[tile_coord[2]][0]
                     and 0 <= tile_coord[1] < self.grid_sizes[tile_coord[2]][1])""",
             'implies(result is not None, result == tile_coord)'],
         must_fail='result is None')

contract('mapproxy.srs:merge_bbox', props=['C03'],
         types=dict(bbox1='tuple[real,real,real,real]', bbox2='tuple[real,real,real,real]'),
         returns='tuple[real,real,real,real]',
         ensures=['result[0] == min(bbox1[0], bbox2[0]) and result[1] == min(bbox1[1], bbox2[1])',
                  'result[2] == max(bbox1[2], bbox2[2]) and result[3] == max(bbox1[3], bbox2[3])'],
         must_fail='result[0] == bbox1[0]')

contract(G + 'TileGrid._tiles_bbox', props=['C03', 'C01', 'C04'],
         types=dict(tiles='list[tuple[int,int,int]]'), returns='tuple[real,real,real,real]',
         requires=['grid_wf(self)', 'len(tiles) >= 1', 'valid_level(self, tiles[0][2])',
                   'valid_level(self, tiles[len(tiles) - 1][2])'],
         ensures=[
             'abs(result[0] - min(tb_x0(self, tiles[0][0], tiles[0][2]), tb_x0(self, tiles[len(tiles)-1][0], tiles[len(tiles)-1][2]))) <= 2e-12',
             'abs(result[1] - min(tb_y0(self, tiles[0][1], tiles[0][2]), tb_y0(self, tiles[len(tiles)-1][1], tiles[len(tiles)-1][2]))) <= 2e-12',
             'abs(result[2] - max(tb_x1(self, tiles[0][0], tiles[0][2]), tb_x1(self, tiles[len(tiles)-1][0], tiles[len(tiles)-1][2]))) <= 2e-12',
             'abs(result[3] - max(tb_y1(self, tiles[0][1], tiles[0][2]), tb_y1(self, tiles[len(tiles)-1][1], tiles[len(tiles)-1][2]))) <= 2e-12',
         ],
         must_fail='result[0] == result[2]')

# ---- _create_tile_list: row-major list, out-of-grid positions are None ------------------------------------
ghost('ctl_elem', ['xs', 'ys', 'level', 'gs', 'm'], """
    None if (xs[m % len(xs)] < 0 or ys[m // len(xs)] < 0 or xs[m % len(xs)] >= gs[0] or ys[m // len(xs)] >= gs[1])
    else (xs[m % len(xs)], ys[m // len(xs)], level)""")

contract(G + '_create_tile_list', props=['C03', 'C01', 'C04', 'C16'],
         types=dict(xs='list[int]', ys='list[int]', level='int', grid_size='tuple[int,int]'),
         returns='list[opt[tuple[int,int,int]]]',
         ensures=['len(result) == len(ys) * len(xs)',
                  'forall(lambda m: implies(0 <= m < len(result), result[m] == ctl_elem(xs, ys, level, grid_size, m)))'],
         loops={
             0: dict(yield_type='opt[tuple[int,int,int]]', inv=[
                 'len(yielded) == _k * len(xs)',
                 'forall(lambda m: implies(0 <= m < len(yielded), yielded[m] == ctl_elem(xs, ys, level, grid_size, m)))']),
             1: dict(yield_type='opt[tuple[int,int,int]]', inv=[
                 'len(yielded) == _k0 * len(xs) + _k',
                 'implies(_k < len(xs), (_k0 * len(xs) + _k) % len(xs) == _k and (_k0 * len(xs) + _k) // len(xs) == _k0)',
                 'forall(lambda m: implies(0 <= m < len(yielded), yielded[m] == ctl_elem(xs, ys, level, grid_size, m)))']),
         },
         must_fail='len(result) == 0')

# ---- _tile_iter: the rectangle of tiles x0..x1 / y0..y1, row by row from the top -----------------------------
# element m of the tile list: column m % w, row m // w counted from the top
ghost('ti_elem', ['g', 'x0', 'ytop', 'w', 'level', 'm'], """
    None if (x0 + m % w < 0 or ti_y(g, ytop, m // w) < 0 or x0 + m % w >= g.grid_sizes[level][0]
             or ti_y(g, ytop, m // w) >= g.grid_sizes[level][1])
    else (x0 + m % w, ti_y(g, ytop, m // w), level)""")
# y index of row r (r = 0 is the top row): decreasing y for south-west origin, increasing for north-west origin
ghost('ti_y', ['g', 'ytop', 'r'], "(ytop + r) if g.flipped_y_axis else (ytop - r)")

contract(G + 'TileGrid._tile_iter', props=['C03', 'C01'],
         types=dict(x0='int', y0='int', x1='int', y1='int', level='int'),
         returns='tuple[tuple[real,real,real,real],tuple[int,int],list[opt[tuple[int,int,int]]]]',
         requires=['grid_wf(self)', 'valid_level(self, level)'],
         raises={'IndexError': 'x1 < x0 or (y0 < y1 if self.flipped_y_axis else y1 < y0)'},
         ensures=[
             'x0 <= x1 and (y1 <= y0 if self.flipped_y_axis else y0 <= y1)',
             # y1 is the top row in both numbering conventions (callers pass y0 = south edge, y1 = north edge)
             'result[1][0] == x1 - x0 + 1 and result[1][1] == ((y0 - y1 + 1) if self.flipped_y_axis else (y1 - y0 + 1))',
             'len(result[2]) == result[1][0] * result[1][1]',
             'forall(lambda m: implies(0 <= m < len(result[2]), result[2][m] == ti_elem(self, x0, y1, x1 - x0 + 1, level, m)))',
             'abs(result[0][0] - tb_x0(self, x0, level)) <= 2e-12 and abs(result[0][2] - tb_x1(self, x1, level)) <= 2e-12',
             'abs(result[0][1] - tb_y0(self, y0, level)) <= 2e-12 and abs(result[0][3] - tb_y1(self, y1, level)) <= 2e-12',
         ],
         must_fail='result[1][0] == 1')

contract(G + 'TileGrid.get_affected_level_tiles', props=['C03', 'C01'],
         types=dict(bbox='tuple[real,real,real,real]', level='int'),
         returns='tuple[tuple[real,real,real,real],tuple[int,int],list[opt[tuple[int,int,int]]]]',
         requires=['grid_wf(self)', 'valid_level(self, level)'],
         raises={'GridError': 'bbox[2] - bbox[0] < self.resolutions[level] or bbox[3] - bbox[1] < self.resolutions[level]'},
         ensures=[
             # the listed block covers the rectangle inset by 1/10 pixel ...
             'result[0][0] <= bbox[0] + self.resolutions[level] / 10 + 2e-12',
             'result[0][2] > bbox[2] - self.resolutions[level] / 10 - 2e-12',
             'result[0][1] <= bbox[1] + self.resolutions[level] / 10 + 2e-12',
             'result[0][3] >= bbox[3] - self.resolutions[level] / 10 - 2e-12',
             # ... and contains no column/row that merely touches it: the first/last column and row overlap
             # the inset rectangle (block edge one tile span inside is already inside the rectangle)
             'result[0][0] + self.resolutions[level] * self.tile_size[0] > bbox[0] + self.resolutions[level] / 10 - 4e-12',
             'result[0][2] - self.resolutions[level] * self.tile_size[0] <= bbox[2] - self.resolutions[level] / 10 + 4e-12',
             'result[0][1] + self.resolutions[level] * self.tile_size[1] >= bbox[1] + self.resolutions[level] / 10 - 4e-12',
             'result[0][3] - self.resolutions[level] * self.tile_size[1] <= bbox[3] - self.resolutions[level] / 10 + 4e-12',
             # the list is the full block, row by row from the top, out-of-grid positions None
             'len(result[2]) == result[1][0] * result[1][1] and result[1][0] >= 1 and result[1][1] >= 1',
             """forall(lambda m: implies(0 <= m < len(result[2]), result[2][m] == ti_elem(self,
                           col_of(self, bbox[0] + self.resolutions[level] / 10, level),
                           row_of(self, bbox[3] - self.resolutions[level] / 10, level), result[1][0], level, m)))""",
             """abs(result[0][0] - tb_x0(self, col_of(self, bbox[0] + self.resolutions[level] / 10, level), level)) <= 2e-12
                and abs(result[0][3] - tb_y1(self, row_of(self, bbox[3] - self.resolutions[level] / 10, level), level)) <= 2e-12""",
         ],
         must_fail='result[1][0] == 1')

contract(G + 'get_resolution', props=['C03'],
         types=dict(bbox='tuple[real,real,real,real]', size='tuple[int,int]'), returns='real',
         requires=['size[0] > 0 and size[1] > 0'],
         ensures=['result == min(abs(bbox[0] - bbox[2]) / size[0], abs(bbox[1] - bbox[3]) / size[1])'],
         must_fail='result == 0')

contract(G + 'bbox_intersects', props=['C03', 'C17'],
         types=dict(one='tuple[real,real,real,real]', two='tuple[real,real,real,real]'), returns='bool',
         ensures=['result == (one[0] < two[2] and one[2] > two[0] and one[1] < two[3] and one[3] > two[1])'],
         must_fail='result')

contract(G + 'bbox_contains', props=['C03', 'C17'],
         types=dict(one='tuple[real,real,real,real]', two='tuple[real,real,real,real]'), returns='bool',
         ensures=["""result == (two[0] - one[0] >= -abs(one[2] - one[0]) / 10e12 and two[1] - one[1] >= -abs(one[3] - one[1]) / 10e12
                               and two[2] - one[2] <= abs(one[2] - one[0]) / 10e12 and two[3] - one[3] <= abs(one[3] - one[1]) / 10e12)""",
                  # exact containment implies the answer True; True implies containment up to the declared tolerance
                  'implies(one[0] <= two[0] and one[1] <= two[1] and two[2] <= one[2] and two[3] <= one[3], result)'],
         must_fail='result')
