"""
C13 defect 2: a seed task's refresh_before is silently replaced by the cache's own
(serving-time) refresh_before.

TileManager.expire_timestamp() returns the cache's `refresh_before` rule whenever one
is configured and only falls back to `_expire_timestamp`, which is where seed_task()
puts the threshold of the seed task.  For such a cache the seed task's rule is never
in force: tiles written before the seed threshold are not fetched again.
"""
import datetime
import os
import shutil
import sys
import tempfile
import time

sys.path.insert(0, os.getcwd())

from mapproxy.compat.image import Image
from mapproxy.config.loader import load_configuration
from mapproxy.image import ImageSource
from mapproxy.image.opts import ImageOptions
from mapproxy.layer import MapLayer, DefaultMapExtent
from mapproxy.seed.config import load_seed_tasks_conf
from mapproxy.seed.seeder import seed

MAPPROXY_YAML = """
globals:
  cache:
    base_dir: %(base)s/cache
    lock_dir: %(base)s/locks
    tile_lock_dir: %(base)s/tile_locks
services:
  tms:
layers:
  - name: plain
    title: plain
    sources: [plain]
  - name: with_rule
    title: with_rule
    sources: [with_rule]
caches:
  plain:
    sources: [upstream]
    grids: [GLOBAL_GEODETIC]
    meta_size: [1, 1]
  with_rule:
    sources: [upstream]
    grids: [GLOBAL_GEODETIC]
    meta_size: [1, 1]
    # serving rule: refresh tiles that are older than a year
    refresh_before:
      weeks: 52
sources:
  upstream:
    type: wms
    req:
      url: http://localhost:1/service?
      layers: foo
"""

SEED_YAML = """
seeds:
  refresh:
    caches: [plain, with_rule]
    grids: [GLOBAL_GEODETIC]
    levels: [0]
    refresh_before:
      time: %(time)s
"""


class LoggingSource(MapLayer):
    """Stands in for the upstream; writes one line per request (seed workers are processes)."""
    supports_meta_tiles = True

    def __init__(self, logfile):
        MapLayer.__init__(self)
        self.extent = DefaultMapExtent()
        self.logfile = logfile

    def get_map(self, query):
        with open(self.logfile, 'a') as f:
            f.write('%r\n' % (query.bbox, ))
        img = Image.new('RGB', query.size, (10, 200, 30))
        img.putpixel((3, 3), (0, 0, 0))
        return ImageSource(img, image_opts=ImageOptions(format='image/png'))


def calls(logfile):
    if not os.path.exists(logfile):
        return 0
    with open(logfile) as f:
        return len(f.readlines())


def main():
    base = tempfile.mkdtemp()
    try:
        mp = os.path.join(base, 'mapproxy.yaml')
        sd = os.path.join(base, 'seed.yaml')
        with open(mp, 'w') as f:
            f.write(MAPPROXY_YAML % dict(base=base))
        # threshold of the seed task: one hour ago
        threshold = datetime.datetime.now() - datetime.timedelta(hours=1)
        with open(sd, 'w') as f:
            f.write(SEED_YAML % dict(time=threshold.strftime('%Y-%m-%dT%H:%M:%S')))

        conf = load_configuration(mp, seed=True)
        seed_conf = load_seed_tasks_conf(sd, conf)
        tasks = seed_conf.seeds(['refresh'])
        logs = {}
        for task in tasks:
            name = task.md['cache_name']
            logs[name] = os.path.join(base, name + '.log')
            task.tile_manager.sources = [LoggingSource(logs[name])]

        devnull = open(os.devnull, 'w')
        stdout, sys.stdout = sys.stdout, devnull
        try:
            seed(tasks, dry_run=False, concurrency=1)     # fill both caches
        finally:
            sys.stdout = stdout
        first = dict((n, calls(l)) for n, l in logs.items())

        # all tiles were written one day ago, i.e. well before the seed threshold (1 h ago)
        day_ago = time.time() - 86400
        for dirpath, _, files in os.walk(os.path.join(base, 'cache')):
            for fn in files:
                os.utime(os.path.join(dirpath, fn), (day_ago, day_ago))

        stdout, sys.stdout = sys.stdout, devnull
        try:
            seed(tasks, dry_run=False, concurrency=1)     # the refreshing seed run
        finally:
            sys.stdout = stdout
        second = dict((n, calls(logs[n]) - first[n]) for n in logs)

        print('upstream requests while filling the caches :', first)
        print('upstream requests in the refreshing seed run:', second)
        bad = False
        for name in sorted(logs):
            if first[name] < 1:
                print('setup problem: cache %s was not filled' % name)
                bad = True
            if second[name] != first[name]:
                print('VIOLATION: seed task with refresh_before = 1 hour ago; tiles of cache %r were written '
                      '1 day ago (before the threshold) but %d of %d were fetched again'
                      % (name, second[name], first[name]))
                bad = True
        return 1 if bad else 0
    finally:
        shutil.rmtree(base, ignore_errors=True)


if __name__ == '__main__':
    sys.exit(main())
