from mapproxy.cache.path import location_funcs, dimensions_part  # noqa (dimensions_part: named in the contracts)


def level_dir_and_tile(layout, tile, cache_dir, file_ext, dimensions):
    """what FileCache does: the pair of functions of a layout, applied to one tile and to that tile's level"""
    tile_location, level_location = location_funcs(layout)
    loc = tile_location(tile, cache_dir, file_ext, False, dimensions)
    if level_location is None:
        # (FileCache disables the level-wise clean-up for such a layout: it then has to go tile by tile)
        return loc, None
    lvl = level_location(tile.coord[2], cache_dir, dimensions)
    return loc, lvl

