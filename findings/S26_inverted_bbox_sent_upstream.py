"""
C17 / defect 2: WMSSource._get_sub_query sends a request with an inverted bounding box
that lies outside the coverage extent when the query does not overlap the coverage
extent in the SRS of the upstream request.

The coverage gate (coverage.intersects) compares in the SRS of the coverage, the
sub-query is cut in the SRS of the request. Near a corner of a coverage that is
configured in another SRS the two disagree; bbox_position_in_image() then returns
min > max and (because of abs()) a non-zero size, so the "size == 0" test does not fire.

Run:  cd /tmp/wt/hunt/C17 && /venv/bin/python demo.py
"""
import io
import os
import shutil
import sys
import tempfile
from urllib.parse import urlparse, parse_qs

sys.path.insert(0, os.getcwd())

import yaml  # noqa: E402
from PIL import Image  # noqa: E402
from webtest import TestApp  # noqa: E402

from mapproxy.client import http as http_mod  # noqa: E402
from mapproxy.srs import SRS  # noqa: E402
from mapproxy.wsgiapp import make_wsgi_app  # noqa: E402

URLS = []


class FakeResp(io.BytesIO):
    def __init__(self, data, ctype):
        io.BytesIO.__init__(self, data)
        self.headers = {'Content-type': ctype, 'content-type': ctype}
        self.code = 200


def fake_open(self, url, data=None, method=None):
    # stands in for the network: records the URL, answers with a picture
    URLS.append(url)
    q = {k.lower(): v[0] for k, v in parse_qs(urlparse(url).query).items()}
    img = Image.new('RGB', (int(q.get('width', 256)), int(q.get('height', 256))), (200, 0, 0))
    buf = io.BytesIO()
    img.save(buf, 'PNG')
    return FakeResp(buf.getvalue(), 'image/png')


http_mod.HTTPClient.open = fake_open

COVERAGE_BBOX = [300000, 5300000, 800000, 6000000]
COVERAGE_SRS = 'EPSG:25832'

CONF = {
    'services': {'wms': {'srs': ['EPSG:4326', 'EPSG:3857', 'EPSG:25832']}},
    'layers': [
        {'name': 'direct', 'title': 'direct', 'sources': ['utm_cov']},
        {'name': 'reprojected', 'title': 'reprojected', 'sources': ['utm_cov_merc_only']},
    ],
    'sources': {
        'utm_cov': {
            'type': 'wms', 'req': {'url': 'http://upstream.example/a', 'layers': 'x'},
            'coverage': {'bbox': COVERAGE_BBOX, 'srs': COVERAGE_SRS}},
        'utm_cov_merc_only': {
            'type': 'wms', 'req': {'url': 'http://upstream.example/b', 'layers': 'x'},
            'supported_srs': ['EPSG:3857'],
            'coverage': {'bbox': COVERAGE_BBOX, 'srs': COVERAGE_SRS}},
    },
}


def check_upstream(url):
    """Return a list of complaints about one upstream URL."""
    q = {k.lower(): v[0] for k, v in parse_qs(urlparse(url).query).items()}
    bbox = tuple(float(v) for v in q['bbox'].split(','))
    srs = SRS(q['srs'])
    extent = SRS(COVERAGE_SRS).transform_bbox_to(srs, COVERAGE_BBOX)
    tol = 1e-6 * (extent[2] - extent[0])
    bad = []
    if not (bbox[0] < bbox[2] and bbox[1] < bbox[3]):
        bad.append('BBOX is inverted/empty (minx=%r > maxx=%r)' % (bbox[0], bbox[2]))
    if (bbox[0] < extent[0] - tol or bbox[1] < extent[1] - tol or
            bbox[2] > extent[2] + tol or bbox[3] > extent[3] + tol):
        bad.append('BBOX %r is not inside the coverage extent %r (%s)' % (bbox, extent, q['srs']))
    return bad


def main():
    tmp = tempfile.mkdtemp(prefix='c17_2_')
    failures = []
    try:
        CONF['globals'] = {'cache': {'base_dir': os.path.join(tmp, 'cache')}}
        conf_file = os.path.join(tmp, 'mapproxy.yaml')
        with open(conf_file, 'w') as f:
            yaml.safe_dump(CONF, f)
        app = TestApp(make_wsgi_app(conf_file))

        # The NW corner of the coverage is at lon 5.9404 / lat 54.109. The query below is
        # a small EPSG:4326 box just WEST of that corner: its max lon (5.939) is smaller
        # than the smallest longitude of the coverage.
        cov_ll = SRS(COVERAGE_SRS).transform_bbox_to(SRS(4326), COVERAGE_BBOX)
        query_bbox = (5.90, 54.05, 5.939, 54.15)
        assert query_bbox[2] < cov_ll[0], (query_bbox, cov_ll)
        print('coverage extent in EPSG:4326: %r' % (cov_ll,))
        print('client query   in EPSG:4326: %r  (entirely west of the extent)' % (query_bbox,))

        for layer in ('direct', 'reprojected'):
            del URLS[:]
            resp = app.get(
                '/service?SERVICE=WMS&VERSION=1.1.1&REQUEST=GetMap&LAYERS=%s&STYLES='
                '&SRS=EPSG:4326&BBOX=%s&WIDTH=256&HEIGHT=256&FORMAT=image/png'
                % (layer, ','.join(repr(v) for v in query_bbox)), expect_errors=True)
            print('layer %-11s -> HTTP %s, %d upstream request(s)' % (layer, resp.status_int, len(URLS)))
            for url in URLS:
                print('    ', url)
                for complaint in check_upstream(url):
                    failures.append('layer %s: %s  [%s]' % (layer, complaint, url))
    finally:
        shutil.rmtree(tmp, ignore_errors=True)

    if failures:
        print('PROPERTY C17 VIOLATED:')
        for f in failures:
            print(' -', f)
        return 1
    print('ok: no upstream request outside the coverage extent')
    return 0


if __name__ == '__main__':
    sys.exit(main())
