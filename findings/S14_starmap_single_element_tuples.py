"""Witness of defect S14 (C15): ThreadPool.starmap tests `len(args[0]) == 1` (length of the FIRST argument tuple) where it
means "exactly one input": for several inputs whose argument tuples have one element each it calls the function once
and drops all other inputs - fewer results than inputs.  exit 1 = reproduces, exit 0 = not."""
import sys
from mapproxy.util.async_ import ThreadPool

bad = []
for size in (1, 4):
    got = list(ThreadPool(size).starmap(lambda x: x * 10, [(1,), (2,), (3,)]))
    if got != [10, 20, 30]:
        bad.append('pool size %d: starmap(f, [(1,), (2,), (3,)]) -> %r (3 inputs, %d results)' % (size, got, len(got)))
    got = list(ThreadPool(size).starcall([(abs, -1), (abs, -2)]))
    if got != [1, 2]:
        bad.append('pool size %d: starcall -> %r' % (size, got))
for b in bad:
    print(b)
sys.exit(1 if bad else 0)
