"""Builders: counter-model (JSON) -> real mapproxy objects.  Used only by the replayer (/venv/bin/python)."""
from pyvc.api import builder


def _gridlist(j, conv):
    from mapproxy.grid import NamedGridList
    vals = conv(j['values'])
    names = list(j['names']['$tuple'] if isinstance(j['names'], dict) else j['names'])
    vals = list(vals)
    if not (len(set(names)) == len(names) == len(vals) and all(isinstance(n, str) for n in names)):
        names = ['%02d' % i for i in range(len(vals))]
    return NamedGridList(list(zip(names, vals)))


def _tile_grid(j, conv):
    from mapproxy.grid import TileGrid
    from mapproxy.srs import SRS
    res = _gridlist(j['resolutions'], conv)
    g = TileGrid.__new__(TileGrid)
    try:
        c = TileGrid(srs=SRS(3857), bbox=conv(j['bbox']), tile_size=conv(j['tile_size']),
                     res=[res[i] for i in range(len(res))], origin=j['origin'])
        g.__dict__.update(c.__dict__)
    except Exception:
        g.srs = SRS(3857)
    g.bbox = conv(j['bbox'])
    g.tile_size = conv(j['tile_size'])
    g.origin = j['origin']
    g.flipped_y_axis = j['flipped_y_axis']
    g.levels = j['levels']
    g.resolutions = res
    want = _gridlist(j['grid_sizes'], conv)
    constructed = getattr(g, 'grid_sizes', None)
    same = constructed is not None and len(constructed) == len(want) and \
        all(tuple(constructed[i]) == tuple(want[i]) for i in range(len(want)))
    g.grid_sizes = want
    g._synthetic_state = not same
    g.stretch_factor = conv(j.get('stretch_factor', 1.15))
    g.max_shrink_factor = conv(j.get('max_shrink_factor', 4.0))
    tr = conv(j.get('threshold_res'))
    g.threshold_res = list(tr) if tr else None
    g.is_geodetic = j.get('is_geodetic', False)
    g.name = j.get('name')
    return g


def _meta_grid(j, conv):
    from mapproxy.grid import MetaGrid
    return MetaGrid(_tile_grid(j['grid'], conv), meta_size=conv(j['meta_size']), meta_buffer=j['meta_buffer'])


builder('$gridlist', _gridlist)
builder('mapproxy.grid:TileGrid', _tile_grid)
builder('mapproxy.grid:MetaGrid', _meta_grid)
