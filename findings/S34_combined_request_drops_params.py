"""
C14 / defect 1: adjacent WMS sources with the same URL are combined into one
upstream request although their request parameters differ (here: the MapServer
`map` parameter).  The second source's parameters are silently dropped, so the
picture differs from the full bottom-to-top composition of the two layer images.
"""
import io
import os
import shutil
import sys
import tempfile
import threading
from http.server import BaseHTTPRequestHandler, HTTPServer
from urllib.parse import urlparse, parse_qs

sys.path.insert(0, os.getcwd())

import numpy as np
from PIL import Image

SIZE = 100
REQUESTS = []

# what the fake upstream (think: MapServer with several mapfiles behind one
# CGI URL) draws for (mapfile, layer)
STYLE = {
    ('base.map', 'land'): ('full', (0, 0, 200, 255)),       # opaque blue
    ('base.map', 'roads'): ('stripe', (0, 255, 0, 255)),    # green stripe
    ('overlay.map', 'roads'): ('stripe', (255, 0, 0, 255)),  # red stripe
}


def upstream_layer(mapfile, layer, size):
    img = np.zeros((size[1], size[0], 4), dtype=np.uint8)
    kind, color = STYLE[(mapfile, layer)]
    if kind == 'full':
        img[:, :] = color
    else:
        img[40:60, :] = color
    return img


def over(dst, src):
    """float 'over' of src (RGBA uint8) onto dst (RGBA float 0..1, straight alpha)"""
    s = src.astype(np.float64) / 255.0
    sa = s[..., 3:4]
    da = dst[..., 3:4]
    oa = sa + da * (1 - sa)
    with np.errstate(invalid='ignore', divide='ignore'):
        oc = np.where(oa > 0, (s[..., :3] * sa + dst[..., :3] * da * (1 - sa)) / oa, 0)
    return np.concatenate([oc, oa], axis=-1)


def upstream_render(params, size):
    mapfile = params.get('map', [''])[0]
    res = np.zeros((size[1], size[0], 4), dtype=np.float64)
    if params.get('transparent', ['false'])[0].lower() != 'true':
        res[:, :] = (1, 1, 1, 1)
    for layer in params['layers'][0].split(','):
        res = over(res, upstream_layer(mapfile, layer, size))
    return (res * 255 + 0.5).astype(np.uint8)


class Handler(BaseHTTPRequestHandler):
    def do_GET(self):
        params = {k.lower(): v for k, v in parse_qs(urlparse(self.path).query).items()}
        REQUESTS.append(self.path)
        size = int(params['width'][0]), int(params['height'][0])
        arr = upstream_render(params, size)
        buf = io.BytesIO()
        Image.fromarray(arr, 'RGBA').save(buf, 'PNG')
        data = buf.getvalue()
        self.send_response(200)
        self.send_header('Content-type', 'image/png')
        self.send_header('Content-length', str(len(data)))
        self.end_headers()
        self.wfile.write(data)

    def log_message(self, *a):
        pass


CONF = """
services:
  wms:
    md: {title: demo}
    srs: ['EPSG:4326']
layers:
  - name: base
    title: base
    sources: [base_src]
  - name: overlay
    title: overlay
    sources: [overlay_src]
sources:
  base_src:
    type: wms
    req:
      url: http://127.0.0.1:%(port)d/cgi-bin/mapserv
      map: base.map
      layers: land
  overlay_src:
    type: wms
    req:
      url: http://127.0.0.1:%(port)d/cgi-bin/mapserv
      map: overlay.map
      layers: roads
      transparent: true
globals:
  cache:
    base_dir: %(tmp)s/cache
    lock_dir: %(tmp)s/locks
    tile_lock_dir: %(tmp)s/tlocks
"""


def getmap(app, layers):
    resp = app.get('/service?SERVICE=WMS&VERSION=1.1.1&REQUEST=GetMap&LAYERS=%s&STYLES='
                   '&SRS=EPSG:4326&BBOX=0,0,10,10&WIDTH=%d&HEIGHT=%d&FORMAT=image/png'
                   % (layers, SIZE, SIZE))
    assert resp.content_type == 'image/png', resp.body[:300]
    return np.asarray(Image.open(io.BytesIO(resp.body)).convert('RGBA'))


def main():
    from mapproxy.wsgiapp import make_wsgi_app
    from webtest import TestApp

    httpd = HTTPServer(('127.0.0.1', 0), Handler)
    t = threading.Thread(target=httpd.serve_forever, daemon=True)
    t.start()
    tmp = tempfile.mkdtemp(prefix='c14_1_')
    try:
        conf = os.path.join(tmp, 'mapproxy.yaml')
        with open(conf, 'w') as f:
            f.write(CONF % {'port': httpd.server_port, 'tmp': tmp})
        app = TestApp(make_wsgi_app(conf))

        # individual layer images, as MapProxy itself delivers them
        base = getmap(app, 'base')
        overlay_px = upstream_layer('overlay.map', 'roads', (SIZE, SIZE))  # what overlay_src draws
        # reference: white background, base, overlay bottom-to-top
        ref = np.zeros((SIZE, SIZE, 4)) + 1.0
        ref = over(ref, base)
        ref = over(ref, overlay_px)
        ref = (ref * 255 + 0.5).astype(np.uint8)

        del REQUESTS[:]
        got = getmap(app, 'base,overlay')
        print('upstream requests for LAYERS=base,overlay:')
        for r in REQUESTS:
            print('   ', r)
        diff = np.abs(got[..., :3].astype(int) - ref[..., :3].astype(int)).max()
        print('pixel (50,50): got %s, reference composition %s' % (tuple(int(v) for v in got[50, 50]), tuple(int(v) for v in ref[50, 50])))
        print('max channel difference to reference:', diff)
        if diff > 2:
            print('FAIL: combining the two upstream requests changed the picture '
                  '(the `map=overlay.map` parameter of the second source was dropped)')
            return 1
        print('OK: image equals the full composition')
        return 0
    finally:
        httpd.shutdown()
        httpd.server_close()
        shutil.rmtree(tmp, ignore_errors=True)


if __name__ == '__main__':
    sys.exit(main())
