"""
C18 / defect 2: the in-image WMS exception handler declares the raw FORMAT
request parameter as Content-type.  The picture is encoded from the sub type
only, so the declared type need not be the type of the body, and CR/LF in
the parameter end up inside the header value (header injection).

run:  cd /tmp/wt/hunt/C18 && /venv/bin/python demo.py
"""
import io
import logging
import os
import re
import shutil
import sys
import tempfile

sys.path.insert(0, os.getcwd())
logging.disable(logging.CRITICAL)

from PIL import Image  # noqa: E402
from mapproxy.wsgiapp import make_wsgi_app  # noqa: E402

CONF = """
services:
  wms:
    srs: ['EPSG:4326']
    image_formats: ['image/png', 'image/jpeg']
    md:
      title: demo
layers:
  - name: dbg
    title: Debug
    sources: [dbg]
sources:
  dbg:
    type: debug
"""

PIL_TO_MIME = {'PNG': 'image/png', 'JPEG': 'image/jpeg', 'GIF': 'image/gif', 'TIFF': 'image/tiff'}
MEDIA_TYPE_RE = re.compile(r'^[A-Za-z0-9!#$&^_.+-]+/[A-Za-z0-9!#$&^_.+-]+(\s*;\s*[^\x00-\x1f\x7f]*)?$')


def call(app, path, qs=''):
    env = {
        'REQUEST_METHOD': 'GET', 'PATH_INFO': path, 'QUERY_STRING': qs,
        'SCRIPT_NAME': '', 'SERVER_NAME': 'localhost', 'SERVER_PORT': '80',
        'HTTP_HOST': 'localhost', 'wsgi.url_scheme': 'http',
        'wsgi.errors': io.StringIO(), 'wsgi.input': io.BytesIO(),
    }
    out = {}

    def start_response(status, headers, exc_info=None):
        out['status'] = status
        out['headers'] = headers
    body = b''.join(app(env, start_response))
    return out['status'], out['headers'], body


BASE = ('service=WMS&version=1.1.1&request=GetMap&styles=&srs=EPSG:4326&bbox=0,0,10,10'
        '&width=120&height=90&layers=%s&exceptions=%s&format=%s')

# the request fails before validate_format() is reached (unknown layer / invalid bbox)
CASES = [
    ('unknown layer, FORMAT=image/png<CR><LF>X-Injected: yes, INIMAGE',
     BASE % ('nope', 'application/vnd.ogc.se_inimage', 'image/png%0D%0AX-Injected:%20yes')),
    ('unknown layer, FORMAT=image/png<LF>Set-Cookie: a=b, BLANK',
     BASE % ('nope', 'application/vnd.ogc.se_blank', 'image/png%0ASet-Cookie:%20a=b')),
    ('unknown layer, FORMAT=text/png, INIMAGE',
     BASE % ('nope', 'application/vnd.ogc.se_inimage', 'text/png')),
    ('unknown layer, FORMAT=application/jpeg, INIMAGE',
     BASE % ('nope', 'application/vnd.ogc.se_inimage', 'application/jpeg')),
    ('invalid bbox, FORMAT=x/png, INIMAGE',
     (BASE % ('dbg', 'application/vnd.ogc.se_inimage', 'x/png')).replace('bbox=0,0,10,10', 'bbox=10,10,0,0')),
]


def main():
    tmp = tempfile.mkdtemp(prefix='c18_demo2_')
    failures = 0
    try:
        conf = os.path.join(tmp, 'mapproxy.yaml')
        with open(conf, 'w') as f:
            f.write(CONF)
        app = make_wsgi_app(conf, ignore_config_warnings=True)
        for desc, qs in CASES:
            status, headers, body = call(app, '/service', qs)
            problems = []
            for k, v in headers:
                if re.search(r'[\x00-\x1f\x7f]', k + v):
                    problems.append('header %s: %r contains control characters (CR/LF header injection)' % (k, v))
            ctype = dict((k.lower(), v) for k, v in headers).get('content-type', '')
            if not MEDIA_TYPE_RE.match(ctype):
                problems.append('declared Content-type %r is not a media type' % ctype)
            try:
                img = Image.open(io.BytesIO(body))
                img.load()
            except Exception:
                img = None
            if img is not None:
                actual = PIL_TO_MIME.get(img.format, 'image/' + str(img.format).lower())
                declared = ctype.split(';')[0].strip().lower()
                if declared != actual:
                    problems.append('body is a %s picture (%dx%d) but it is declared as %r'
                                    % (img.format, img.size[0], img.size[1], ctype))
                if img.size != (120, 90):
                    problems.append('picture size %r, requested (120, 90)' % (img.size,))
            if problems:
                failures += 1
                print('FAILED  %s -> %s' % (desc, status))
                for p in problems:
                    print('          - ' + p)
            else:
                print('ok      %s -> %s, Content-type %r' % (desc, status, ctype))
    finally:
        shutil.rmtree(tmp, ignore_errors=True)

    if failures:
        print('\nPROPERTY C18 VIOLATED: %d in-image exception response(s) declare request text instead of the '
              'type of the picture they carry' % failures)
        return 1
    print('\nall in-image exception responses declare the content type of their body')
    return 0


if __name__ == '__main__':
    sys.exit(main())
