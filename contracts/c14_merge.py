"""C14 (and the global-limit clause of C10) - layer composition and its shortcuts: LayerMerger.merge."""
from pyvc.api import contract, cls, ghost, lemma
from pyvc import tracelib as T
M = 'mapproxy.image.merge:'

cls(M + 'LayerMerger', fields=dict(layers='list[tuple[opaque,opt[opaque]]]', cacheable='bool'))

MF = {'transparent': 'bool', 'clip': 'bool', 'size': 'tuple[int,int]', 'cacheable': 'bool', 'opacity': 'opt[real]',
      'mode': 'str', 'image_opts': 'opt[opaque]'}


def _fast_path_guard(ex, st, post, result):
    """the single-layer shortcut (return the layer image itself, no recomposition) is taken only when recomposition
    would not change the picture"""
    import z3
    from pyvc.values import eq, VOpaque
    self_ = post.env['self']
    layers = st.heap[self_.ref]['layers']
    created = T.evs(st, 'create_image')
    blank = T.evs(st, 'BlankImageSource')
    if created or blank:
        return
    # no image was created: the result is a layer image handed through
    first = layers.elem(z3.IntVal(0))
    img, lcov = first.items[0], first.items[1]
    cov = post.env['coverage']
    size = post.env['size']
    io = post.env['image_opts']
    opts = ex.opaque_field(st, img, 'image_opts')
    yield ('shortcut_returns_the_only_layer', z3.And(layers.length() == 1, eq(result, img)), 'shortcut: exactly one layer, returned as is')
    yield ('shortcut_not_with_global_limit', z3.Not(ex.truth(st, cov)),
           'C10: a request-wide limited_to coverage is never skipped by the shortcut')
    yield ('shortcut_not_with_layer_clip',
           z3.Or(z3.Not(ex.truth(st, lcov)), z3.Not(ex.truth(st, ex.opaque_field(st, lcov.val, 'clip')))),
           'shortcut only without a clipping layer coverage')
    yield ('shortcut_same_size', z3.Or(z3.Not(ex.truth(st, size)), eq(size.val if hasattr(size, 'val') else size, ex.opaque_field(st, img, 'size'))),
           'shortcut only when no resize is needed')
    yield ('shortcut_opaque_or_transparent_output',
           z3.Or(z3.And(z3.Not(opts.isnone), z3.Not(ex.truth(st, ex.opaque_field(st, opts.val, 'transparent')))),
                 ex.truth(st, ex.opaque_field(st, io, 'transparent'))),
           'shortcut only if the layer is opaque or the output may be transparent')
    op = ex.opaque_field(st, opts.val, 'opacity')
    yield ('shortcut_not_with_opacity',
           z3.Or(z3.Not(ex.truth(st, opts)), op.isnone, op.val.t >= 1),
           'C14: a layer with opacity < 1 is never handed through unblended (full composition would fade it)')


def _global_limit_applied(ex, st, post, result):
    import z3
    cov = post.env['coverage']
    created = T.evs(st, 'create_image')
    if not created:
        return
    def same(a, b):
        a = a.val if hasattr(a, 'val') else a
        b = b.val if hasattr(b, 'val') else b
        return hasattr(a, 't') and hasattr(b, 't') and a.t.eq(b.t)
    masks = [(i, e) for i, e in T.evs(st, 'mask_image') if len(e.args) == 4 and same(e.args[3], cov)]
    srcs = T.evs(st, 'ImageSource')
    ok = bool(masks) and bool(srcs) and masks[-1][0] < srcs[-1][0]
    yield ('global_limit_masks_result', z3.Or(z3.Not(ex.truth(st, cov)), z3.BoolVal(ok)),
           'C10: with a request-wide coverage the composed result is masked with it before it is returned')


def _output_size(ex, st, post, result):
    """the composed image has the requested size (the first layer's size only when none was requested)"""
    import z3
    from pyvc.values import eq
    created = T.evs(st, 'create_image')
    if not created:
        return
    size = post.env['size']
    first = st.heap[post.env['self'].ref]['layers'].elem(z3.IntVal(0)).items[0]
    arg = created[0][1].args[0]
    want_req = eq(arg, size.val) if hasattr(size, 'val') else eq(arg, size)
    want_first = eq(arg, ex.opaque_field_at(st, created[0][1], first, 'size'))
    none = size.isnone if hasattr(size, 'isnone') else z3.BoolVal(False)
    g = z3.If(none, want_first, want_req)
    yield ('output_has_requested_size', g, 'create_image(size, ..): the requested size; the size of the first layer only if size is None')


def _layer_ops(ex, st, k):
    """per layer (bottom to top): the image composited is layer k's image; clipped iff its coverage clips; the operation
    is chosen by mode / opacity"""
    import z3
    self_ = st.env['self']
    layers = st.heap[self_.ref]['layers']
    n0 = getattr(st, 'iter_start_trace', 0)
    evs_ = st.trace[n0:]
    as_img = [e for e in evs_ if e.name == 'as_image']
    cur = layers.elem(k).items[0]
    ok = len(as_img) == 1 and as_img[0].recv is not None and as_img[0].recv.t.eq(cur.t)
    yield ('composites_layer_k', z3.BoolVal(ok), 'iteration k composites layer k (bottom-to-top order, each layer once)')
    ops = [e for e in evs_ if e.name in ('alpha_composite', 'blend', 'paste')]
    yield ('one_operation_per_layer', z3.BoolVal(len(ops) == 1), 'each layer is combined into the result exactly once')
    # ---- added after the mutation audit: per-source clipping and opacity are applied exactly when configured ----------------
    from pyvc.values import eq
    lcov = layers.elem(k).items[1]
    masks = [e for e in evs_ if e.name == 'mask_image']
    clip = z3.And(ex.truth(st, lcov), ex.truth(st, ex.opaque_field(st, lcov.val, 'clip')) if hasattr(lcov, 'val') else z3.BoolVal(False))
    g_clip = clip == z3.BoolVal(len(masks) == 1)
    for m in masks:
        ok_m = len(m.args) == 4 and as_img and m.args[0] is as_img[0].result and m.args[1] is st.env['bbox'] and m.args[2] is st.env['bbox_srs']
        g_clip = z3.And(g_clip, z3.BoolVal(bool(ok_m)), eq(m.args[3], lcov.val) if ok_m and hasattr(lcov, 'val') else z3.BoolVal(False))
    yield ('layer_clipped_iff_its_coverage_clips', g_clip,
           'mask_image(layer image, bbox, bbox_srs, layer coverage) is applied exactly when the layer has a coverage with clip set')
    opts = ex.opaque_field(st, cur, 'image_opts')
    op = ex.opaque_field(st, opts.val, 'opacity') if hasattr(opts, 'val') else None
    fades = [e for e in evs_ if e.name in ('putalpha', 'blend')]
    if op is not None:
        need = z3.And(z3.Not(opts.isnone), z3.Not(op.isnone), op.val.t < 1)
        g_op = need == z3.BoolVal(len(fades) == 1)
        for f in fades:
            if f.name == 'blend':
                g_op = z3.And(g_op, z3.BoolVal(len(f.args) == 3), eq(f.args[2], op.val) if len(f.args) == 3 else z3.BoolVal(False))
        yield ('layer_faded_iff_opacity_below_one', g_op,
               'a layer is faded (alpha scaled by its opacity, or blended with it) exactly when it has an opacity < 1')


def _layer_over(ex, st, k):
    """the 'over' step: dest = the result so far, source = THIS layer's (clipped / converted / faded) image, in that order"""
    import z3
    from pyvc.values import eq, VStr, VSeq
    evs_ = st.trace[getattr(st, 'iter_start_trace', 0):]
    pre = st.iter_start_state
    res0 = pre.env['result']
    as_img = [e for e in evs_ if e.name == 'as_image']
    ops = [e for e in evs_ if e.name in ('alpha_composite', 'blend', 'paste')]
    if len(as_img) != 1 or len(ops) != 1:
        return
    op = ops[0]
    # everything derived from this layer's image inside the iteration
    derived = [as_img[0].result]
    made_by = {}
    for e in evs_:
        if e.name == 'mask_image' and e.args and any(e.args[0] is d for d in derived):
            derived.append(e.result)
        if e.name == 'convert' and e.recv is not None and any(e.recv.t.eq(d.t) for d in derived if hasattr(d, 't')):
            derived.append(e.result)
            made_by[id(e.result)] = e
    final = st.env['img']
    is_derived = any(final is d for d in derived)

    def mode(v):
        return ex.opaque_field(pre, v, 'mode').t
    alpha_modes = lambda v: z3.Or(mode(v) == z3.StringVal('RGBA'), mode(v) == z3.StringVal('P'))   # noqa
    tested_alpha = alpha_modes(final)
    if id(final) in made_by:
        cv = made_by[id(final)]
        tested_alpha = z3.Or(tested_alpha, mode(cv.recv) == z3.StringVal('P'))
        if len(cv.args) == 1 and isinstance(cv.args[0], VStr) and cv.args[0].conc() == 'RGBA':
            # convert('RGBA') of an image that has an alpha channel or a palette keeps that transparency
            tested_alpha = z3.Or(tested_alpha, alpha_modes(cv.recv))
    sup = [e for e in evs_ if e.name == 'has_alpha_composite_support']
    composite = z3.And(mode(res0) == z3.StringVal('RGBA'), ex.truth(st, sup[0].result)) if sup else z3.BoolVal(False)
    origin = lambda v: isinstance(v, VSeq) and v.concrete and len(v.items) == 2 and all(x.conc() == 0 for x in v.items)   # noqa
    if op.name == 'alpha_composite':
        ok = len(op.args) == 2 and op.args[0] is res0 and op.args[1] is final and st.env['result'] is op.result and is_derived
        g = z3.And(z3.BoolVal(bool(ok)), composite, tested_alpha)
    elif op.name == 'blend':
        ok = len(op.args) == 3 and op.args[0] is res0 and op.args[1] is final and st.env['result'] is op.result and is_derived
        g = z3.And(z3.BoolVal(bool(ok)), z3.Not(composite))
        # blend() has no mask: it is the 'over' step only for a layer image WITHOUT transparency - the alpha channel / palette
        # transparency of any other image would be dropped by the conversion to the result mode (its hidden colour blended in)
        src = made_by[id(final)].recv if id(final) in made_by else final
        g = z3.And(g, z3.Not(alpha_modes(src)))
    else:
        ok = op.recv is not None and hasattr(res0, 't') and op.recv.t.eq(res0.t) and len(op.args) in (2, 3) and op.args[0] is final \
            and origin(op.args[1]) and st.env['result'] is res0 and is_derived
        g = z3.BoolVal(bool(ok))
        if ok and len(op.args) == 3:
            # transparency of the layer is honoured: the mask is the layer image itself
            g = z3.And(g, z3.BoolVal(op.args[2] is final), tested_alpha, z3.Not(composite))
        elif ok:
            # (a plain paste follows a mode test on the final image itself: no palette conversion happened in between)
            g = z3.And(g, z3.Not(alpha_modes(final)))
    cont = [(i, e) for i, e in enumerate(evs_) if e.name == 'contains' and len(e.args) == 2 and isinstance(e.args[1], VStr)
            and e.args[1].conc() == 'transparency']
    g_key = z3.BoolVal(len(cont) == 1)
    if len(cont) == 1:
        i0, c = cont[0]
        nxt = evs_[i0 + 1] if i0 + 1 < len(evs_) else None
        conv = nxt is not None and nxt.name == 'convert' and len(nxt.args) == 1 and isinstance(nxt.args[0], VStr) \
            and nxt.args[0].conc() == 'RGBA' and any(nxt.recv.t.eq(d.t) for d in derived if hasattr(d, 't'))
        g_key = z3.Implies(ex.truth(st, c.result), z3.BoolVal(bool(conv)))
    yield ('colour_key_becomes_alpha', g_key,
           "an image with a fixed transparency value ('transparency' in img.info) is converted to RGBA before it is combined, "
           'so its transparent colour stays transparent')
    yield ('layer_goes_over_the_result_so_far', g,
           'the layer image (source) is combined OVER the result so far (destination) - alpha_composite(result, img) / '
           'blend(result, img, opacity) / result.paste(img, (0, 0)[, img]) - and the new result is the outcome; images with an '
           'alpha channel or palette keep their transparency (alpha_composite or a masked paste), only others are pasted plainly')


def _merge_result(ex, st, post, result):
    import z3
    created = [e for i, e in T.evs(st, 'create_image')]
    if not created:
        return
    srcs = [e for i, e in T.evs(st, 'ImageSource')]
    cov = post.env['coverage']
    def same(a, b):
        a = a.val if hasattr(a, 'val') else a
        b = b.val if hasattr(b, 'val') else b
        return hasattr(a, 't') and hasattr(b, 't') and a.t.eq(b.t)
    masks = [e for i, e in T.evs(st, 'mask_image') if len(e.args) == 4 and (e.args[3] is cov or same(e.args[3], cov))]
    pastes = [(i, e) for i, e in T.evs(st, 'paste')]
    ok = len(srcs) == 1 and result is srcs[0].result and srcs[0].kwargs.get('size') is not None and srcs[0].kwargs.get('image_opts') is post.env['image_opts']
    g = z3.BoolVal(bool(ok))
    if ok:
        has_cov = ex.truth(st, cov)
        if len(created) == 2 and masks:
            bg, m = created[1], masks[-1]
            last = pastes[-1][1] if pastes else None
            okc = last is not None and last.recv is not None and last.recv.t.eq(bg.result.t) and len(last.args) == 3 \
                and last.args[0] is m.args[0] and last.args[2] is m.result and srcs[0].args[0] is bg.result \
                and m.args[1] is post.env['bbox'] and m.args[2] is post.env['bbox_srs'] \
                and bg.args[0] is created[0].args[0] and bg.args[1] is post.env['image_opts']
            g = z3.And(g, has_cov, z3.BoolVal(bool(okc)))
        else:
            g = z3.And(g, z3.Not(has_cov), z3.BoolVal(len(created) == 1 and srcs[0].args[0] is st.env.get('result')))
        kc = srcs[0].kwargs.get('cacheable')
        layers = st.heap[post.env['self'].ref]['layers']
        i = z3.Int('i_mc')
        all_c = z3.ForAll([i], z3.Implies(z3.And(0 <= i, i < layers.length()),
                                          ex.truth(st, ex.opaque_field(st, layers.elem(i).items[0], 'cacheable'))))
        g = z3.And(g, z3.BoolVal(kc is not None), z3.Implies(ex.truth(st, kc), all_c) if kc is not None else z3.BoolVal(False))
    yield ('merged_result_is_returned', g,
           'the returned ImageSource holds the composed image - with a request-wide coverage: a fresh background on which the '
           'composition is pasted through mask_image(composition, bbox, bbox_srs, coverage) - with the requested size/options, '
           'and is cacheable only if every layer image is')


contract(M + 'LayerMerger.merge', props=['C14', 'C10'],
         types=dict(image_opts='opaque', size='opt[tuple[int,int]]', bbox='opaque', bbox_srs='opaque', coverage='opt[opaque]'),
         returns='opaque', default_callee='opaque', opaque_fields=MF, stable_fields=list(MF),
         opaque_spec={'has_alpha_composite_support': {'returns': 'bool', 'pure': True}, 'create_image': {'pure': True},
                      'as_image': {'pure': True}, 'mask_image': {'pure': True}, 'convert': {'pure': True},
                      'split': {'returns': 'tuple[opaque,opaque,opaque,opaque]', 'pure': True}, 'multiply': {'pure': True},
                      'constant': {'pure': True}, 'putalpha': {'pure': True}, 'alpha_composite': {'pure': True},
                      'blend': {'pure': True}, 'paste': {'pure': True}, 'ImageSource': {'pure': True},
                      'BlankImageSource': {'pure': True}},
         loops={0: dict(inv=['implies(cacheable, all(self.layers[i][0].cacheable for i in range(_k)))'],
                        types={'result': 'opaque', 'cacheable': 'bool'}, body_trace=[_layer_ops, _layer_over])},
         trace=[_fast_path_guard, _global_limit_applied, _output_size, _merge_result])


# ---- opaque pruning: WMSSource.is_opaque ---------------------------------------------------------------------------------
from . import c17_upstream  # noqa  (WMSSource class declaration)
W = 'mapproxy.source.wms:'


def _is_opaque_spec(ex, st, post, result):
    """is_opaque True => the layer really hides everything below it for this query"""
    import z3
    from pyvc.values import eq
    self_ = post.env['self']
    q = post.env['query']
    h = st.heap[self_.ref]
    res = ex.truth(st, result)
    io = h['image_opts']
    transparent = ex.truth(st, ex.opaque_field(st, io, 'transparent'))
    op = h['opacity']
    cov, rr = h['coverage'], h['res_range']
    yield ('opaque_not_transparent', z3.Implies(res, z3.Not(transparent)), 'is_opaque => the source image has no transparency')
    yield ('opaque_full_opacity', z3.Implies(res, z3.Or(op.isnone, op.val.t >= z3.RealVal('0.99'))),
           'is_opaque => no opacity, or an opacity of (practically) 1: a faded or invisible layer does not hide the layers below')
    conts = [e for i, e in T.evs(st, 'contains')]
    cov_ok = z3.Not(ex.truth(st, cov))
    rr_ok = z3.Not(ex.truth(st, rr))
    for e in conts:
        if e.recv is not None and e.recv.t.eq(cov.val.t) and len(e.args) == 2:
            cov_ok = z3.Or(cov_ok, z3.And(ex.truth(st, e.result), eq(e.args[0], ex.opaque_field_at(st, e, q, 'bbox')),
                                          eq(e.args[1], ex.opaque_field_at(st, e, q, 'srs'))))
        if e.recv is not None and e.recv.t.eq(rr.val.t) and len(e.args) == 3:
            rr_ok = z3.Or(rr_ok, ex.truth(st, e.result))
    yield ('opaque_inside_coverage', z3.Implies(res, cov_ok), 'is_opaque => no coverage, or the coverage contains the whole query bbox')
    yield ('opaque_inside_res_range', z3.Implies(res, rr_ok), 'is_opaque => no resolution range, or the range contains the query')


contract(W + 'WMSSource.is_opaque', props=['C14'],
         types=dict(query='opaque'), returns='bool', default_callee='opaque',
         opaque_fields=dict(c17_upstream.QF), stable_fields=['bbox', 'size', 'srs', 'transparent'],
         opaque_spec={'contains': {'returns': 'bool', 'pure': True}},
         trace=[_is_opaque_spec])


# ---- combining adjacent upstream requests ---------------------------------------------------------------------------------
def _compatible_spec(ex, st, post, result):
    """two sources may be merged into ONE upstream request only if that cannot change the picture"""
    import z3
    from pyvc.values import eq
    a, b = post.env['self'], post.env['other']
    ha, hb = st.heap[a.ref], st.heap[b.ref]
    res = ex.truth(st, result)
    yield ('combine_only_without_opacity', z3.Implies(res, z3.And(ha['opacity'].isnone, hb['opacity'].isnone)),
           'combined only if NEITHER source has an opacity (opacity is applied per source image, not to the combination)')
    sa, sb = st.heap[ha['supported_srs'].ref]['supported_srs'], st.heap[hb['supported_srs'].ref]['supported_srs']
    yield ('combine_same_srs_and_formats', z3.Implies(res, z3.And(eq(sa, sb), eq(ha['supported_formats'], hb['supported_formats']))),
           'combined only with equal supported SRS and format lists')
    yield ('combine_same_colour_key_and_coverage',
           z3.Implies(res, z3.And(eq(ha['transparent_color'], hb['transparent_color']),
                                  eq(ha['transparent_color_tolerance'], hb['transparent_color_tolerance']),
                                  eq(ha['coverage'], hb['coverage']))),
           'combined only with the same transparent colour key and the same coverage')
    dims = T.evs(st, 'dimensions_for_params')
    g = z3.BoolVal(True)
    if len(dims) == 2:
        g = eq(dims[0][1].result, dims[1][1].result)
    yield ('combine_same_forwarded_dimensions', z3.Implies(res, z3.And(z3.BoolVal(len(dims) == 2), g)),
           'combined only if both forward the same dimension parameters')
    # C17: the combined source has no resolution range of its own: a source whose range excludes this request must not be
    # merged into the upstream request of another one
    q = post.env['query']
    conts = [e for i, e in T.evs(st, 'contains') if len(e.args) == 3]
    g_rr = z3.BoolVal(True)
    for hh in (ha, hb):
        rr = hh['res_range']
        mine = [e for e in conts if e.recv is not None and hasattr(rr, 'val') and e.recv.t.eq(rr.val.t)]
        inside = z3.BoolVal(False)
        for e in mine:
            inside = z3.Or(inside, z3.And(ex.truth(st, e.result), eq(e.args[0], ex.opaque_field_at(st, e, q, 'bbox')),
                                          eq(e.args[1], ex.opaque_field_at(st, e, q, 'size')), eq(e.args[2], ex.opaque_field_at(st, e, q, 'srs'))))
        g_rr = z3.And(g_rr, z3.Or(z3.Not(ex.truth(st, rr)), inside))
    yield ('combine_only_inside_both_resolution_ranges', z3.Implies(res, g_rr),
           'combined only if each of the two sources has no resolution range or its range contains the request (bbox, size, srs)')


contract(W + 'WMSSource._is_compatible', props=['C14', 'C17'],
         types=dict(other='obj:mapproxy.source.wms:WMSSource', query='opaque'), returns='bool', default_callee='opaque',
         opaque_fields=dict(c17_upstream.QF), stable_fields=['bbox', 'size', 'srs'],
         inline=['__eq__'], opaque_spec={'dimensions_for_params': {'pure': True}, 'contains': {'returns': 'bool', 'pure': True}},
         trace=[_compatible_spec])


# ---- WMSClient.combined_client: one upstream request for two adjacent sources, layers in drawing order ----------------------------
def _combined_client_spec(ex, st, post, result):
    import z3
    from pyvc.values import eq, VNone, VSeq
    a, b = post.env['self'], post.env['other']
    ha = st.heap[a.ref]
    made = [e for i, e in T.evs(st, 'WMSClient')]
    cp = [e for i, e in T.evs(st, 'copy')]
    sets = [e for e in st.trace if e.name == 'setattr:layers']
    e0 = st.trace[0] if st.trace else None
    ta = ha['request_template']
    tb = ex.opaque_field(post, b, 'request_template')
    same_url = eq(ex.opaque_field(post, ta, 'url'), ex.opaque_field(post, tb, 'url'))
    is_none = z3.BoolVal(isinstance(result, VNone))
    # ... and all their parameters other than the layer list are the same (the combined request is made with the parameters
    # of THIS client: styles, map, sld, transparent, vendor parameters of the other one would be lost)
    pw = [e for i, e in T.evs(st, '_params_without_layers')]
    ok_pw = len(pw) == 2 and {0, 1} == {0 if _same(e.args[0] if e.args else e.recv, a) else 1 if _same(e.args[0] if e.args else e.recv, b) else 2 for e in pw}
    same_params = eq(pw[0].result, pw[1].result) if len(pw) == 2 else z3.BoolVal(False)
    combinable = z3.And(same_url, same_params) if len(pw) == 2 else z3.BoolVal(False)
    yield ('none_iff_other_server', z3.And(z3.Implies(z3.Not(same_url), is_none),
                                           z3.Implies(z3.Not(is_none), z3.And(z3.BoolVal(bool(ok_pw)), combinable)),
                                           z3.Implies(combinable, z3.Not(is_none))),
           'requests are combined exactly when both templates address the same URL AND agree in every parameter except the layer '
           'list; otherwise None (no combination)')
    if isinstance(result, VNone):
        yield ('no_combination_no_effects', z3.BoolVal(not made and not sets), 'without combination nothing is built or changed')
        return
    ok = len(made) == 1 and len(cp) == 1 and len(sets) == 1 and cp[0].recv is not None and cp[0].recv.t.eq(ta.t) \
        and result.t.eq(made[0].result.t) and len(made[0].args) == 1 and made[0].args[0].t.eq(cp[0].result.t)
    goal = z3.BoolVal(bool(ok))
    if ok:
        se = sets[0]
        new_params = ex.opaque_field_at(st, se, cp[0].result, 'params')
        mine = ex.opaque_field_at(st, se, new_params, 'layers')
        theirs = ex.opaque_field_at(st, se, ex.opaque_field_at(st, se, tb, 'params'), 'layers')
        val = se.args[1]
        n1, n2 = mine.length(), theirs.length()
        i = z3.Int('i_cc')
        goal = z3.And(goal, z3.BoolVal(se.recv is not None and se.recv.t.eq(new_params.t)),
                      val.length() == n1 + n2,
                      z3.ForAll([i], z3.Implies(z3.And(0 <= i, i < n1 + n2),
                                                val.elem(i).t == z3.If(i < n1, mine.elem(i).t, theirs.elem(i - n1).t))))
    yield ('layers_concatenated_in_drawing_order', goal,
           'the combined request is a COPY of this template (the template itself is not modified) whose layer list is this '
           "client's layers followed by the other's: the lower source stays below the upper one")
    kw = made[0].kwargs if made else {}
    same = made and all(k in kw for k in ('http_client', 'http_method', 'fwd_req_params')) \
        and kw['http_client'].t.eq(ha['http_client'].t) and kw['http_method'].t.eq(ha['http_method'].t) \
        and kw['fwd_req_params'].t.eq(ha['fwd_req_params'].t)
    yield ('combined_client_keeps_settings', z3.BoolVal(bool(same)), 'HTTP client, method and forwarded parameters are those of this client')


from contracts import c17_upstream   # noqa  (WMSClient class declaration)
contract('mapproxy.client.wms:WMSClient.combined_client', props=['C14'],
         types=dict(other='opaque', query='opaque'), returns='opt[opaque]', default_callee='opaque',
         opaque_fields={'request_template': 'opaque', 'params': 'opaque', 'layers': 'list[str]', 'url': 'str'},
         stable_fields=['request_template', 'url'],
         opaque_spec={'copy': {'pure': True}, 'WMSClient': {'pure': True}, '_params_without_layers': {'pure': True}},
         opaque=['_params_without_layers'],
         trace=[_combined_client_spec])


def _same(v, w):
    if hasattr(v, 'ref') or hasattr(w, 'ref'):
        return getattr(v, 'ref', None) == getattr(w, 'ref', -1)
    if not hasattr(v, 't') or not hasattr(w, 't'):
        return v is w
    return v.t.eq(w.t)


def _combined_layer_spec(ex, st, post, result):
    import z3
    from pyvc.values import eq, VNone
    a, b = post.env['self'], post.env['other']
    ha, hb = st.heap[a.ref], st.heap[b.ref]
    comp = [e for i, e in T.evs(st, '_is_compatible')]
    cc = [e for i, e in T.evs(st, 'combined_client')]
    made = [e for i, e in T.evs(st, 'WMSSource')]
    ok = len(comp) == 1 and _same(comp[0].args[-2], b)
    yield ('compatibility_checked_first', z3.BoolVal(bool(ok)), 'compatibility of exactly these two sources is evaluated')
    if not ok:
        return
    compat = ex.truth(st, comp[0].result)
    if isinstance(result, VNone):
        g = z3.Not(compat) if not cc else z3.And(compat, z3.Not(ex.truth(st, cc[0].result)))
        yield ('none_only_when_not_combinable', z3.And(g, z3.BoolVal(not made)),
               'no combination only if the sources are incompatible or the clients cannot be combined')
        return
    ok = len(cc) == 1 and len(made) == 1 and _same(result, made[0].result) and cc[0].recv is not None \
        and _same(cc[0].recv, ha['client']) and len(cc[0].args) == 2 and _same(cc[0].args[0], hb['client']) \
        and _same(cc[0].args[1], post.env['query']) and len(made[0].args) == 1 and _same(made[0].args[0], cc[0].result)
    yield ('combined_source_uses_combined_client',
           z3.And(z3.BoolVal(bool(ok)), compat, ex.truth(st, cc[0].result) if cc else z3.BoolVal(False)),
           'a combined source exists only for compatible sources; its client is self.client.combined_client(other.client, query) '
           '(this source first: drawing order)')
    kw = made[0].kwargs if made else {}
    names = ('image_opts', 'transparent_color', 'transparent_color_tolerance', 'supported_srs', 'supported_formats', 'coverage',
             'fwd_req_params')
    g = z3.BoolVal(all(k in kw for k in names) and 'opacity' not in kw)
    if all(k in kw for k in names):
        g = z3.And(g, *[eq(kw[k], ha[k]) for k in names])
    yield ('combined_source_keeps_settings', g,
           'the combined source has the image options, colour key, SRS/format lists, coverage and forwarded parameters of this source '
           '(equal to those of the other by _is_compatible) and no opacity')


contract(W + 'WMSSource.combined_layer', props=['C14'],
         types=dict(other='obj:mapproxy.source.wms:WMSSource', query='opaque'), returns='opt[opaque]', default_callee='opaque',
         opaque_spec={'_is_compatible': {'returns': 'bool', 'pure': True}, 'combined_client': {'pure': True}, 'WMSSource': {'pure': True}},
         opaque=['_is_compatible', 'WMSSource'],
         trace=[_combined_layer_spec])


# ---- combined_layers: only ADJACENT layers are merged, nothing is reordered or dropped ------------------------------------------
def _combine_step(ex, st, k):
    import z3
    from pyvc.values import eq
    pre = st.iter_start_state
    evs_ = [e for e in st.trace[getattr(st, 'iter_start_trace', 0):] if e.name == 'combined_layer']
    c0, c1 = pre.env['combined_layers'], st.env['combined_layers']
    l0, l1 = pre.env['layers'], st.env['layers']
    n0 = c0.length()
    ok = len(evs_) == 1
    goal = z3.BoolVal(ok)
    if ok:
        e = evs_[0]
        cur = l0.elem(z3.IntVal(0))
        merged = ex.truth(st, e.result)
        i = z3.Int('i_cl')
        goal = z3.And(
            # asked: the LAST layer collected so far (the one directly below) with the next layer of the input, this query
            z3.BoolVal(e.recv is not None and len(e.args) == 2), eq(e.recv, c0.elem(n0 - 1)), eq(e.args[0], cur),
            z3.BoolVal(e.args[1].t.eq(st.env['query'].t)),
            # consumed exactly that layer
            l1.length() == l0.length() - 1,
            z3.ForAll([i], z3.Implies(z3.And(0 <= i, i < l1.length()), eq(l1.elem(i), l0.elem(i + 1)))),
            # everything below the last collected layer is untouched
            z3.ForAll([i], z3.Implies(z3.And(0 <= i, i < n0 - 1), eq(c1.elem(i), c0.elem(i)))),
            z3.If(merged,
                  z3.And(c1.length() == n0, eq(c1.elem(n0 - 1), e.result)),
                  z3.And(c1.length() == n0 + 1, eq(c1.elem(n0 - 1), c0.elem(n0 - 1)), eq(c1.elem(n0), cur))))
    yield ('adjacent_merge_or_append', goal,
           'each input layer, in order, is either merged into the layer directly below it (replacing it with the combination) or '
           'appended unchanged on top; no other entry changes')


contract('mapproxy.service.wms:combined_layers', props=['C14'],
         types=dict(layers='list[opaque]', query='opaque'), returns='list[opaque]', default_callee='opaque',
         opaque_spec={'combined_layer': {'returns': 'opt[opaque]', 'pure': True}},
         ensures=["implies(len(layers) <= 1, len(result) == len(layers) and all(result[i] == layers[i] for i in range(len(layers))))",
                  "implies(len(layers) >= 1, 1 <= len(result) and len(result) <= len(layers))",
                  "len(layers) == len(old(layers)) and all(layers[i] == old(layers)[i] for i in range(len(layers)))"],
         loops={0: dict(inv=["len(combined_layers) >= 1",
                             "len(combined_layers) + len(layers) <= len(old(layers))",
                             "all(layers[i] == old(layers)[i + len(old(layers)) - len(layers)] for i in range(len(layers)))"],
                        types={'current_layer': 'opaque', 'combined': 'opt[opaque]', 'layers': 'list[opaque]',
                               'combined_layers': 'list[opaque]'},
                        body_trace=[_combine_step], decreases='len(layers)')})


# ---- LayerRenderer: every rendered layer enters the merger once, in order, with ITS opacity and ITS coverage ----------------------
SW = 'mapproxy.service.wms:'
cls(SW + 'LayerRenderer', fields=dict(layers='list[opaque]', query='opaque', request='opaque', raise_source_errors='bool',
                                      concurrent_rendering='int'))


def _render_layer_spec(ex, st, post, result):
    import z3
    from pyvc.values import eq, VSeq, VNone
    lyr = post.env['layer']
    gm = [e for i, e in T.evs(st, 'get_map')]
    ok = len(gm) == 1 and gm[0].recv is not None and gm[0].recv.t.eq(lyr.t) and len(gm[0].args) == 1 \
        and _same(gm[0].args[0], st.heap[post.env['self'].ref]['query'])
    yield ('asks_this_layer_for_the_query', z3.BoolVal(bool(ok)), 'the layer is asked for exactly the query of the request, once')
    sets = [e for e in st.trace if e.name.startswith('setattr:')]
    if not (isinstance(result, VSeq) and result.concrete and len(result.items) == 2):
        yield ('returns_layer_and_image', z3.BoolVal(False), 'the result is the pair (layer, image or None)')
        return
    r_l, r_i = result.items
    blank = bool(gm) and gm[0].raised == 'BlankImage'
    if blank:
        yield ('blank_layer_contributes_nothing', z3.And(z3.BoolVal(_same(r_l, lyr) and isinstance(r_i, VNone) and not sets)),
               'a layer that reports a blank image yields (layer, None): it is skipped, not replaced')
        return
    img = gm[0].result if gm else None
    good = img is not None and _same(r_l, lyr)
    goal = z3.BoolVal(bool(good))
    if good:
        goal = z3.And(goal, eq(r_i, img))
        isnone = img.isnone if hasattr(img, 'isnone') else z3.BoolVal(isinstance(img, VNone))
        op = [e for e in sets if e.name == 'setattr:opacity']
        g2 = z3.BoolVal(len(op) == 1 and len(sets) == 1)
        if len(op) == 1:
            inner = img.val if hasattr(img, 'isnone') else img
            g2 = z3.And(g2, z3.BoolVal(_same(op[0].recv, inner)), eq(op[0].args[1], ex.opaque_field_at(st, op[0], lyr, 'opacity')))
        goal = z3.And(goal, z3.If(isnone, z3.BoolVal(not sets), g2))
    yield ('image_gets_the_opacity_of_its_layer', goal,
           'the image returned by the layer is passed on unchanged except that its opacity is set to the opacity of THAT layer')


contract(SW + 'LayerRenderer._render_layer', props=['C14'],
         types=dict(layer='opaque'), returns='tuple[opaque,opt[opaque]]', default_callee='opaque',
         opaque_fields={'opacity': 'opt[real]'}, stable_fields=[],
         opaque_spec={'get_map': {'returns': 'opt[opaque]', 'raises': ['SourceError', 'MapBBOXError', 'MapError', 'TransformationError',
                                                                      'BlankImage']}},
         raises={'SourceError': True, 'RequestError': True},
         trace=[_render_layer_spec])


def _merge_step(ex, st, k):
    """one finished layer task: its image (if any) is added to the merger together with the coverage of ITS layer"""
    import z3
    from pyvc.values import eq
    evs_ = st.trace[getattr(st, 'iter_start_trace', 0):]
    adds = [e for e in evs_ if e.name == 'add']
    task = st.env['layer_task']
    pre = st.iter_start_state
    exc = ex.opaque_field(pre, task, 'exception')
    res = ex.opaque_field(pre, task, 'result')
    lyr, img = res.items
    goal_none = z3.BoolVal(len(adds) == 0)
    goal_add = z3.BoolVal(len(adds) == 1)
    if len(adds) == 1:
        a = adds[0]
        goal_add = z3.And(goal_add, z3.BoolVal(_same(a.recv, st.env['layer_merger']) and len(a.args) == 2 and not a.kwargs),
                          eq(a.args[0], img), eq(a.args[1], ex.opaque_field_at(st, a, lyr, 'coverage')))
    ok_task = exc.isnone
    yield ('finished_layer_added_once_with_its_coverage',
           z3.Implies(ok_task, z3.If(img.isnone, goal_none, goal_add)),
           'a layer task that succeeded contributes exactly one merger.add(image, layer.coverage) - none if the layer was blank')
    yield ('failed_layer_adds_no_image', z3.Implies(z3.Not(ok_task), goal_none), 'a failed layer task adds no image in its turn')
    capture = 'rendered' in st.env
    rr = [e for e in evs_ if e.name == 'reraise']
    sh = [e for e in evs_ if e.name == 'shutdown']
    rr_ok = len(rr) == 1 and len(rr[0].args) == 1 and len(sh) == 1 and st.trace.index(sh[0]) < st.trace.index(rr[0])
    g_rr = z3.BoolVal(bool(rr_ok))
    if rr_ok:
        g_rr = z3.And(g_rr, eq(rr[0].args[0], exc.val))
    if not capture:
        yield ('failed_layer_is_not_skipped', z3.Implies(z3.Not(ok_task), g_rr),
               'a failed layer task stops the rendering: pool shut down and the stored exception re-raised (never a picture with a '
               'layer silently missing)')
    else:
        r0, r1 = pre.env['rendered'].t, st.env['rendered'].t
        e0, e1 = pre.env['errors'], st.env['errors']
        yield ('rendered_counts_successes', z3.If(ok_task, z3.And(r1 == r0 + 1, e1.length() == e0.length()), r1 == r0),
               '`rendered` counts exactly the layer tasks that succeeded')
        nc = [e for e in evs_ if e.name == 'setattr:cacheable']
        g_nc = z3.BoolVal(len(nc) == 1 and _same(nc[0].recv, st.env['layer_merger']))
        if len(nc) == 1:
            g_nc = z3.And(g_nc, z3.Not(ex.truth(st, nc[0].args[1])))
        yield ('partial_picture_is_not_cacheable', z3.Implies(z3.Not(ok_task), g_nc),
               'as soon as one layer failed the merged result is marked not cacheable')
        yield ('failed_layer_is_recorded_or_reraised', z3.Implies(z3.Not(ok_task), z3.Or(e1.length() == e0.length() + 1, g_rr)),
               'a failed layer is either recorded as a source error (to be shown in the picture) or its exception is re-raised')


_TASKF = {'exception': 'opt[opaque]', 'result': 'tuple[opaque,opt[opaque]]', 'coverage': 'opt[opaque]'}


def _imap_in_order(ex, st, post, result):
    import z3
    im = [e for i, e in T.evs(st, 'imap')]
    ok = len(im) == 1 and _same(im[0].recv, post.env['async_pool']) and len(im[0].args) == 2 \
        and _same(im[0].args[1], post.env['render_layers']) and getattr(im[0].args[0], 'name', '').endswith('_render_layer') \
        and 'use_result_objects' in im[0].kwargs
    g = z3.BoolVal(bool(ok))
    if ok:
        g = z3.And(g, ex.truth(st, im[0].kwargs['use_result_objects']))
    yield ('all_layers_rendered_in_order', g,
           'the tasks are pool.imap(self._render_layer, render_layers, use_result_objects=True): one per layer, results consumed '
           'in layer order (C15), failures delivered as results')
    if 'rendered' in st.env:
        adds = [e for i, e in T.evs(st, 'add')]
        mi = [e for i, e in T.evs(st, 'message_image')]
        some = st.env['rendered'].t > 0
        errs = st.env['errors']
        yield ('no_picture_without_any_layer', z3.Implies(post.env['render_layers'].length() > 0, some),
               'a normal return means at least one layer was rendered (otherwise RequestError)')
        tail = [e for e in adds if mi and _same(e.args[0], mi[0].result)]
        has_err = errs.length() > 0 if hasattr(errs, 'length') else ex.truth(st, errs)
        io = [e for i, e in T.evs(st, 'ImageOptions')]
        transp = z3.BoolVal(False)
        if len(mi) == 1 and len(io) == 1 and 'transparent' in io[0].kwargs and 'image_opts' in mi[0].kwargs \
                and _same(mi[0].kwargs['image_opts'], io[0].result):
            transp = ex.truth(st, io[0].kwargs['transparent'])
        yield ('source_errors_are_shown',
               z3.Implies(has_err, z3.And(z3.BoolVal(len(mi) == 1 and len(tail) == 1 and adds[-1] is tail[0]), transp)),
               'recorded source errors are rendered as a TRANSPARENT message image added LAST (on top; it must not hide the layers '
               'that did render)')


for fn_, extra in (('_render_raise_exceptions', {}), ('_render_capture_source_errors', {'errors': 'list[opaque]', 'rendered': 'int'})):
    contract(SW + 'LayerRenderer.' + fn_, props=['C14'],
             types=dict(async_pool='opaque', render_layers='list[opaque]', layer_merger='opaque'), returns='none',
             default_callee='opaque', opaque_fields=dict(_TASKF), stable_fields=['exception', 'result', 'coverage'],
             opaque_spec={'imap': {'returns': 'list[opaque]', 'pure': True}, 'add': {}, 'shutdown': {},
                          'reraise': {'raises': ['Exception', 'SourceError']}, 'message_image': {'pure': True},
                          'ImageOptions': {'pure': True}},
             raises={'RequestError': True, 'Exception': True, 'SourceError': True},
             loops={0: dict(inv=[] if not extra else ['rendered >= 0', 'rendered + len(errors) <= _k'], types=dict(extra, layer_task='opaque'),
                            body_trace=[_merge_step])},
             trace=[_imap_in_order])


def _render_dispatch(ex, st, post, result):
    import z3
    from pyvc.values import eq
    h = st.heap[post.env['self'].ref]
    cl = [e for i, e in T.evs(st, 'combined_layers')]
    ok = len(cl) == 1 and len(cl[0].args) == 2 and _same(cl[0].args[1], h['query'])
    g = z3.BoolVal(bool(ok))
    if ok:
        g = z3.And(g, eq(cl[0].args[0], h['layers']))
    yield ('renders_the_combined_layer_list', g, 'the layers rendered are combined_layers(self.layers, self.query)')
    if not ok:
        return
    rl = cl[0].result
    a = [e for i, e in T.evs(st, '_render_raise_exceptions')]
    b = [e for i, e in T.evs(st, '_render_capture_source_errors')]
    calls = a + b
    empty = rl.length() == 0
    good = len(calls) == 1 and len(calls[0].args) >= 3 and _same(calls[0].args[-1], post.env['layer_merger'])
    g2 = z3.BoolVal(bool(good))
    if good:
        g2 = z3.And(g2, eq(calls[0].args[-2], rl), ex.truth(st, h['raise_source_errors']) == z3.BoolVal(bool(a)))
    yield ('every_combined_layer_goes_to_the_merger', z3.If(empty, z3.BoolVal(not calls), g2),
           'unless there is nothing to render, the whole combined list and the given merger are handed to exactly one of the two '
           'render loops (raising / capturing source errors as configured)')


contract(SW + 'LayerRenderer.render', props=['C14'],
         types=dict(layer_merger='opaque'), returns='opaque', default_callee='opaque',
         opaque_spec={'combined_layers': {'returns': 'list[opaque]', 'pure': True}, 'Pool': {'pure': True},
                      '_render_raise_exceptions': {'raises': ['RequestError']}, '_render_capture_source_errors': {'raises': ['RequestError']}},
         opaque=['combined_layers', '_render_raise_exceptions', '_render_capture_source_errors'],
         raises={'RequestError': True},
         trace=[_render_dispatch])


# ---- per-source / request-wide clipping: the mask is drawn from the coverage cut to the image rectangle, for EVERY kind of coverage ----
def _mask_from_coverage(ex, st, post, result):
    import z3
    from pyvc.values import VNone
    cov = post.env['coverage']
    tr = [e for i, e in T.evs(st, 'transform_to')]
    it = [e for i, e in T.evs(st, 'intersection')]
    fl = [e for i, e in T.evs(st, 'flatten_to_polygons')]
    ok = len(tr) == 1 and tr[0].recv is not None and tr[0].recv.t.eq(cov.t) and tr[0].args[0] is post.env['bbox_srs'] \
        and len(it) == 1 and it[0].recv is not None and it[0].recv.t.eq(tr[0].result.t) and it[0].args[0] is post.env['bbox'] \
        and it[0].args[1] is post.env['bbox_srs']
    yield ('coverage_is_cut_to_the_image_rectangle', z3.BoolVal(bool(ok)),
           'the coverage is transformed to the SRS of the image and intersected with the image bbox')
    g = z3.BoolVal(len(fl) <= 1)
    for e in fl:
        a = e.args[0]
        isnone = a.isnone if hasattr(a, 'isnone') else z3.BoolVal(isinstance(a, VNone))
        g = z3.And(g, z3.Not(isnone))
    yield ('mask_geometry_exists_for_every_coverage', g,
           'the polygons of the mask are never taken from a missing geometry: a coverage that is a plain rectangle (BBOXCoverage, '
           'geom None) is masked by its rectangle, an empty intersection masks everything - clipping never fails')


contract('mapproxy.image.mask:mask_polygons', props=['C14', 'C10'],
         types=dict(bbox='opaque', bbox_srs='opaque', coverage='opaque'), returns='opaque', default_callee='opaque',
         opaque_fields={'geom': 'opt[opaque]', 'bbox': 'opaque'}, stable_fields=['geom', 'bbox'],
         opaque_spec={'transform_to': {'pure': True}, 'intersection': {'returns': 'opt[opaque]', 'pure': True},
                      'flatten_to_polygons': {'pure': True}, 'bbox_polygon': {'pure': True}},
         trace=[_mask_from_coverage])


# ---- group layers: "opaque" is asked about what the group really draws ------------------------------------------------------------------
def _group_opaque(ex, st, post, result):
    import z3
    h = st.heap[post.env['self'].ref]
    this = h['this']
    q = post.env['query']
    io = [e for i, e in T.evs(st, 'is_opaque')]
    own = [e for e in io if e.recv is not None and hasattr(this, 'val') and e.recv.t.eq(this.val.t)]
    has_this = ex.truth(st, this)
    # a group that has a layer of its own renders only that layer (map_layers_for_query): its opacity alone decides
    g = z3.If(has_this, z3.And(z3.BoolVal(len(io) == 1 and len(own) == 1 and own[0].args[-1] is q), ex.truth(st, result) == (ex.truth(st, own[0].result) if own else z3.BoolVal(False))),
              z3.BoolVal(not own))
    yield ('group_is_opaque_iff_what_it_draws_is', g,
           'a group layer with a layer of its own is drawn from that layer only, so it hides the layers below exactly when THAT layer '
           'is opaque for the query - the sub-layers, which are not drawn, are not asked')


cls(SW + 'WMSGroupLayer', fields=dict(name='opaque', title='opaque', this='opt[opaque]', layers='list[opaque]', md='opaque',
                                      is_active='opaque', has_legend='opaque', queryable='opaque', extent='opaque', res_range='opaque'))
contract(SW + 'WMSGroupLayer.is_opaque', props=['C14'],
         types=dict(query='opaque'), returns='bool', default_callee='opaque',
         opaque_spec={'is_opaque': {'returns': 'bool', 'pure': True}},
         loops={0: dict(inv=[], types={})},
         trace=[_group_opaque])
