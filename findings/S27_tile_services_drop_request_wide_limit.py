"""
C10 / defect 1: TMS, WMTS and KML drop the request-wide ``limited_to`` as soon
as the layer entry has a ``limited_to`` of its own.

The authorization callback answers

    {'authorized': 'partial',
     'limited_to': <northern hemisphere>,            # whole request
     'layers': {'tiles': {'tile': True, 'map': True,
                          'limited_to': <western hemisphere>}}}

WMS applies both limits (only the north-west quadrant keeps content).
The tile services only apply the layer limit: the south-west quadrant, which
is outside the geometry the whole request was limited to, is delivered with
full content.
"""
import io
import os
import shutil
import sys
import tempfile
import threading
from http.server import BaseHTTPRequestHandler, HTTPServer

sys.path.insert(0, os.getcwd())

from PIL import Image  # noqa: E402
from webtest import TestApp  # noqa: E402
from mapproxy.wsgiapp import make_wsgi_app  # noqa: E402


class Upstream(BaseHTTPRequestHandler):
    """Answers every request with a solid red 256x256 PNG."""

    def do_GET(self):
        buf = io.BytesIO()
        Image.new('RGB', (256, 256), (255, 0, 0)).save(buf, 'png')
        body = buf.getvalue()
        self.send_response(200)
        self.send_header('Content-type', 'image/png')
        self.send_header('Content-length', str(len(body)))
        self.end_headers()
        self.wfile.write(body)

    def log_message(self, *a):
        pass


CONF = '''
services:
  wms:
    srs: ['EPSG:3857']
  tms:
  wmts:
  kml:
layers:
  - name: tiles
    title: tiles
    sources: [red_cache]
caches:
  red_cache:
    grids: [GLOBAL_MERCATOR]
    sources: [red_wms]
    cache:
      type: file
      directory: %(tmp)s/cache
sources:
  red_wms:
    type: wms
    req:
      url: http://127.0.0.1:%(port)d/service
      layers: red
globals:
  cache:
    base_dir: %(tmp)s/cache_data
'''

NORTH = {'geometry': [-180, 0, 180, 85], 'srs': 'EPSG:4326'}   # whole request
WEST = {'geometry': [-180, -85, 0, 85], 'srs': 'EPSG:4326'}    # layer 'tiles'


def authorize(service, layers, environ=None, **kw):
    return {
        'authorized': 'partial',
        'limited_to': NORTH,
        'layers': {
            'tiles': {'tile': True, 'map': True, 'limited_to': WEST},
        },
    }


# sample pixels of a 256x256 picture of the whole world (EPSG:3857)
QUADRANTS = {
    'NW (in both geometries)': ((64, 64), True),
    'NE (outside layer limit)': ((192, 64), False),
    'SW (outside request limit)': ((64, 192), False),
    'SE (outside both)': ((192, 192), False),
}


def main():
    srv = HTTPServer(('127.0.0.1', 0), Upstream)
    threading.Thread(target=srv.serve_forever, daemon=True).start()
    tmp = tempfile.mkdtemp()
    failures = []
    try:
        conf = os.path.join(tmp, 'mapproxy.yaml')
        with open(conf, 'w') as f:
            f.write(CONF % {'tmp': tmp, 'port': srv.server_port})
        app = TestApp(make_wsgi_app(conf))
        env = {'mapproxy.authorize': authorize}

        world = '-20037508.342789244,-20037508.342789244,20037508.342789244,20037508.342789244'
        requests = [
            ('WMS', '/service?service=WMS&version=1.1.1&request=GetMap&layers=tiles&styles='
                    '&srs=EPSG:3857&bbox=%s&width=256&height=256&format=image/png&transparent=true' % world),
            ('WMTS', '/wmts/tiles/GLOBAL_MERCATOR/0/0/0.png'),
            ('KML', '/kml/tiles/0/0/0.png'),
        ]
        for name, url in requests:
            resp = app.get(url, extra_environ=env)
            img = Image.open(io.BytesIO(resp.body)).convert('RGBA')
            for label, (xy, should_have_content) in QUADRANTS.items():
                px = img.getpixel(xy)
                has_content = px[3] != 0
                ok = has_content == should_have_content
                print('%-5s %-28s pixel %r -> %s%s' % (
                    name, label, px, 'content' if has_content else 'transparent',
                    '' if ok else '   <== WRONG'))
                if not ok:
                    failures.append('%s: %s is %s' % (name, label, 'visible' if has_content else 'missing'))

        # TMS: level 0 of the global-mercator profile has 2x2 tiles; 0/0/0 is the
        # south-west quadrant of the world: inside the layer limit, but completely
        # outside the geometry the whole request is limited to.
        resp = app.get('/tms/1.0.0/tiles/0/0/0.png', extra_environ=env)
        img = Image.open(io.BytesIO(resp.body)).convert('RGBA')
        opaque = 256 * 256 - img.getchannel('A').histogram()[0]
        print('TMS   tile 0/0/0 (south-west quadrant, outside request limit): %d of %d pixels with content'
              % (opaque, 256 * 256))
        if opaque:
            failures.append('TMS: %d pixels of a tile completely outside the request-wide geometry are visible' % opaque)
        resp = app.get('/tms/1.0.0/tiles/0/0/1.png', extra_environ=env)
        img = Image.open(io.BytesIO(resp.body)).convert('RGBA')
        opaque = 256 * 256 - img.getchannel('A').histogram()[0]
        print('TMS   tile 0/0/1 (north-west quadrant, inside both): %d of %d pixels with content'
              % (opaque, 256 * 256))
        if opaque < 250 * 250:
            failures.append('TMS: permitted tile lost its content')
    finally:
        srv.shutdown()
        shutil.rmtree(tmp, ignore_errors=True)

    if failures:
        print()
        print('PROPERTY C10 VIOLATED: the request was limited to the northern hemisphere, but')
        for f in failures:
            print('  - ' + f)
        return 1
    print('ok: layer limit and request-wide limit are both enforced by every service')
    return 0


if __name__ == '__main__':
    sys.exit(main())
