"""
C13 defect 3: relative refresh thresholds are wrong by one hour around a DST switch.

timestamp_before() subtracts the age from the NAIVE LOCAL wall-clock time and converts
the result back with mktime().  Within `age` after a daylight-saving switch the
threshold is one hour too late (spring) or one hour too early (autumn):
  * spring: `refresh_before: {hours: 2}` refreshes tiles that are only 1..2 h old
    (written after the threshold -> needless upstream requests),
  * autumn: tiles that are 2..3 h old (written before the threshold) are served
    from the cache without a refresh.
The clock is pinned (datetime.now / time.time), the real TileManager.is_cached is used.
"""
import calendar
import datetime
import os
import shutil
import sys
import tempfile
import time

sys.path.insert(0, os.getcwd())
os.environ['TZ'] = 'Europe/Berlin'
time.tzset()

import mapproxy.util.times as times
from mapproxy.cache.dummy import DummyLocker
from mapproxy.cache.file import FileCache
from mapproxy.cache.tile import TileManager, Tile
from mapproxy.compat.image import Image
from mapproxy.grid import TileGrid
from mapproxy.image import ImageSource
from mapproxy.image.opts import ImageOptions
from mapproxy.layer import MapLayer, DefaultMapExtent

_real_datetime = datetime.datetime
_real_time = time.time
_timedelta = datetime.timedelta
NOW = [None]


class FakeDateTime(_real_datetime):
    @classmethod
    def now(cls, tz=None):
        return _real_datetime.fromtimestamp(NOW[0], tz)


class FakeDateTimeModule(object):
    datetime = FakeDateTime
    timedelta = _timedelta


class CountingSource(MapLayer):
    supports_meta_tiles = False

    def __init__(self):
        MapLayer.__init__(self)
        self.extent = DefaultMapExtent()
        self.calls = 0

    def get_map(self, query):
        self.calls += 1
        img = Image.new('RGB', query.size, (1, 2, 3))
        img.putpixel((1, 1), (9, 9, 9))
        return ImageSource(img, image_opts=ImageOptions(format='image/png'))


def scenario(label, now_epoch, tile_age, must_refresh):
    NOW[0] = now_epoch
    tmp = tempfile.mkdtemp()
    try:
        opts = ImageOptions(format='image/png')
        cache = FileCache(tmp, 'png', image_opts=opts)
        src = CountingSource()
        mgr = TileManager(TileGrid(), cache, [src], 'png', locker=DummyLocker(), image_opts=opts)
        mgr.load_tile_coord((0, 0, 1))
        written = now_epoch - tile_age
        os.utime(cache.tile_location(Tile((0, 0, 1))), (written, written))
        mgr._refresh_before = {'hours': 2}           # as set by the loader for `refresh_before: {hours: 2}`
        before = src.calls
        threshold = mgr.expire_timestamp()
        mgr.load_tile_coord((0, 0, 1))
        refreshed = src.calls - before == 1
        print('%s: now-threshold = %d s (configured 7200), tile age %d s -> %s (required: %s)'
              % (label, now_epoch - threshold, tile_age,
                 'fetched again' if refreshed else 'served from cache',
                 'fetched again' if must_refresh else 'served from cache'))
        return refreshed == must_refresh
    finally:
        shutil.rmtree(tmp, ignore_errors=True)


def main():
    times.datetime = FakeDateTimeModule
    time.time = lambda: NOW[0]
    had_time = hasattr(times, 'time')
    if had_time:
        times.time = time.time        # the repaired function reads the epoch clock through its own import
    try:
        ok = True
        # control: an ordinary day, 12:00 UTC
        ok &= scenario('ordinary day 90 min old ', calendar.timegm((2026, 6, 10, 12, 0, 0)), 5400, False)
        ok &= scenario('ordinary day 150 min old', calendar.timegm((2026, 6, 10, 12, 0, 0)), 9000, True)
        # 2026-03-29 01:30 UTC = 03:30 CEST, DST started 30 minutes ago
        ok &= scenario('spring switch 90 min old', calendar.timegm((2026, 3, 29, 1, 30, 0)), 5400, False)
        # 2026-10-25 01:30 UTC = 02:30 CET, DST ended 30 minutes ago
        ok &= scenario('autumn switch 150 min old', calendar.timegm((2026, 10, 25, 1, 30, 0)), 9000, True)
    finally:
        times.datetime = datetime
        time.time = _real_time
        if had_time:
            times.time = _real_time
    if not ok:
        print('VIOLATION: the relative threshold is not "now - 2 h" after a DST switch')
        return 1
    return 0


if __name__ == '__main__':
    sys.exit(main())
